// extract: the (tiny) Go -> Lean fact translator.  It re-reads /repo's SOURCE on every run with
// go/parser and regenerates lean/CocaVerif/Gen/*.lean: named constants and tables, one-line decision
// conditions at fixed sites, "does this entry point reset that global" facts, regex source strings.
// The executable models import these definitions, so the model follows the code; the theorems are
// stated against the property's own numbers/clauses, so a changed fact breaks a proof obligation.
//
// usage: extract <repo> <outdir>      (prints one JSON status line last)
package main

import (
	"bytes"
	"encoding/json"
	"fmt"
	"go/ast"
	"go/parser"
	"go/printer"
	"go/token"
	"os"
	"path/filepath"
	"sort"
	"strconv"
	"strings"
)

type param struct {
	Go   string // printed Go sub-expression, e.g. "len(method.FunctionCalls)"
	Lean string // Lean binder name
	Type string // Lean type
}

type fact struct {
	Kind  string  // const | strlist | cond | resets | regex | strconst
	Name  string  // Lean name
	File  string  // path relative to repo
	Ident string  // const/var name (const, strlist, regex, strconst)
	Func  string  // function name (cond, resets); "T.m" for methods
	Sel   string  // cond: "if#N" / "return#N" / "elseif#N" (0-based, source order within Func)
	Ps    []param // cond parameters
	Doc   string
}

type group struct {
	File  string // output file (without .lean)
	Facts []fact
}

var fset = token.NewFileSet()
var cache = map[string]*ast.File{}
var repo string

func parse(rel string) (*ast.File, error) {
	if f, ok := cache[rel]; ok {
		return f, nil
	}
	f, err := parser.ParseFile(fset, filepath.Join(repo, rel), nil, 0)
	if err != nil {
		return nil, err
	}
	cache[rel] = f
	return f, nil
}

func show(n ast.Node) string {
	var b bytes.Buffer
	printer.Fprint(&b, fset, n)
	return b.String()
}

func leanStr(s string) string {
	var b strings.Builder
	b.WriteByte('"')
	for _, r := range s {
		switch r {
		case '"':
			b.WriteString("\\\"")
		case '\\':
			b.WriteString("\\\\")
		case '\n':
			b.WriteString("\\n")
		case '\t':
			b.WriteString("\\t")
		case '\r':
			b.WriteString("\\r")
		default:
			b.WriteRune(r)
		}
	}
	b.WriteByte('"')
	return b.String()
}

func findValue(f *ast.File, name string) ast.Expr {
	for _, d := range f.Decls {
		gd, ok := d.(*ast.GenDecl)
		if !ok {
			continue
		}
		for _, s := range gd.Specs {
			vs, ok := s.(*ast.ValueSpec)
			if !ok {
				continue
			}
			for i, n := range vs.Names {
				if n.Name == name && i < len(vs.Values) {
					return vs.Values[i]
				}
			}
		}
	}
	return nil
}

// value of `var name = ...` / `name := ...` declared inside function fn
func findLocalValue(fd *ast.FuncDecl, name string) ast.Expr {
	var res ast.Expr
	ast.Inspect(fd.Body, func(n ast.Node) bool {
		switch x := n.(type) {
		case *ast.ValueSpec:
			for i, id := range x.Names {
				if id.Name == name && i < len(x.Values) && res == nil {
					res = x.Values[i]
				}
			}
		case *ast.AssignStmt:
			if x.Tok == token.DEFINE {
				for i, l := range x.Lhs {
					if show(l) == name && i < len(x.Rhs) && res == nil {
						res = x.Rhs[i]
					}
				}
			}
		}
		return true
	})
	return res
}

func findFunc(f *ast.File, name string) *ast.FuncDecl {
	recv := ""
	if i := strings.Index(name, "."); i >= 0 {
		recv, name = name[:i], name[i+1:]
	}
	for _, d := range f.Decls {
		fd, ok := d.(*ast.FuncDecl)
		if !ok || fd.Name.Name != name {
			continue
		}
		if recv == "" && fd.Recv == nil {
			return fd
		}
		if recv != "" && fd.Recv != nil && len(fd.Recv.List) == 1 {
			t := show(fd.Recv.List[0].Type)
			t = strings.TrimPrefix(t, "*")
			if t == recv {
				return fd
			}
		}
	}
	return nil
}

type untranslatable struct{ what string }

func (u untranslatable) Error() string { return "untranslatable: " + u.what }

// expression translator: Bool/Nat/Int/String fragment
func tr(e ast.Expr, ps []param) (string, error) {
	txt := show(e)
	for _, p := range ps {
		if p.Go == txt {
			return p.Lean, nil
		}
	}
	switch x := e.(type) {
	case *ast.ParenExpr:
		s, err := tr(x.X, ps)
		return "(" + s + ")", err
	case *ast.BasicLit:
		switch x.Kind {
		case token.INT:
			return x.Value, nil
		case token.STRING:
			v, err := strconv.Unquote(x.Value)
			if err != nil {
				return "", err
			}
			return leanStr(v), nil
		case token.CHAR:
			v, _, _, err := strconv.UnquoteChar(x.Value[1:len(x.Value)-1], '\'')
			if err != nil {
				return "", err
			}
			return fmt.Sprintf("(Char.ofNat %d)", v), nil
		}
	case *ast.Ident:
		if x.Name == "true" || x.Name == "false" {
			return x.Name, nil
		}
	case *ast.UnaryExpr:
		if x.Op == token.NOT {
			s, err := tr(x.X, ps)
			return "(!" + s + ")", err
		}
	case *ast.BinaryExpr:
		a, err := tr(x.X, ps)
		if err != nil {
			return "", err
		}
		b, err := tr(x.Y, ps)
		if err != nil {
			return "", err
		}
		switch x.Op {
		case token.LAND:
			return "(" + a + " && " + b + ")", nil
		case token.LOR:
			return "(" + a + " || " + b + ")", nil
		case token.GTR:
			return "decide (" + a + " > " + b + ")", nil
		case token.GEQ:
			return "decide (" + a + " ≥ " + b + ")", nil
		case token.LSS:
			return "decide (" + a + " < " + b + ")", nil
		case token.LEQ:
			return "decide (" + a + " ≤ " + b + ")", nil
		case token.EQL:
			return "(" + a + " == " + b + ")", nil
		case token.NEQ:
			return "(" + a + " != " + b + ")", nil
		case token.ADD:
			if stringy(x) {
				return "(" + a + " ++ " + b + ")", nil
			}
			return "(" + a + " + " + b + ")", nil
		case token.SUB:
			return "(" + a + " - " + b + ")", nil
		}
	case *ast.CallExpr:
		fn := show(x.Fun)
		var args []string
		for _, a := range x.Args {
			s, err := tr(a, ps)
			if err != nil {
				return "", err
			}
			args = append(args, s)
		}
		switch fn {
		case "strings.HasPrefix":
			return "(String.startsWith " + args[0] + " " + args[1] + ")", nil
		case "strings.HasSuffix":
			return "(String.endsWith " + args[0] + " " + args[1] + ")", nil
		case "strings.ToLower":
			return "(String.toLower " + args[0] + ")", nil
		case "strings.ToUpper":
			return "(String.toUpper " + args[0] + ")", nil
		}
	}
	return "", untranslatable{txt}
}

// a `+` with a string literal somewhere among its operands is a concatenation
func stringy(e ast.Expr) bool {
	switch x := e.(type) {
	case *ast.BasicLit:
		return x.Kind == token.STRING
	case *ast.ParenExpr:
		return stringy(x.X)
	case *ast.BinaryExpr:
		return x.Op == token.ADD && (stringy(x.X) || stringy(x.Y))
	}
	return false
}

// collect conditions of a function in source order
func conds(fd *ast.FuncDecl) (ifs []ast.Expr, rets []ast.Expr) {
	ast.Inspect(fd.Body, func(n ast.Node) bool {
		switch x := n.(type) {
		case *ast.IfStmt:
			ifs = append(ifs, x.Cond)
		case *ast.ReturnStmt:
			if len(x.Results) == 1 {
				rets = append(rets, x.Results[0])
			}
		}
		return true
	})
	return
}

// does fd's body (top level statements only) assign `name = <zero value / literal>`?
func resets(fd *ast.FuncDecl, name string) (bool, string) {
	for _, st := range fd.Body.List {
		as, ok := st.(*ast.AssignStmt)
		if !ok || as.Tok != token.ASSIGN {
			continue
		}
		for i, l := range as.Lhs {
			if show(l) == name && i < len(as.Rhs) {
				return true, show(as.Rhs[i])
			}
		}
	}
	return false, ""
}

func emit(g group) (string, []string) {
	var b strings.Builder
	var stale []string
	ns := "CocaVerif.Gen." + g.File
	fmt.Fprintf(&b, "-- GENERATED by harness/cmd/extract from /repo on every run. DO NOT EDIT.\nnamespace %s\n", ns)
	for _, f := range g.Facts {
		af, err := parse(f.File)
		fail := func(why string) {
			stale = append(stale, fmt.Sprintf("%s.%s (%s %s %s): %s", g.File, f.Name, f.File, f.Func+f.Ident, f.Sel, why))
		}
		if err != nil {
			fail(err.Error())
			continue
		}
		doc := fmt.Sprintf("/-- %s: %s%s %s %s -/\n", f.File, f.Func, f.Ident, f.Sel, f.Doc)
		switch f.Kind {
		case "const":
			v := findValue(af, f.Ident)
			if bl, ok := v.(*ast.BasicLit); ok && bl.Kind == token.INT {
				fmt.Fprintf(&b, "%sdef %s : Nat := %s\n", doc, f.Name, bl.Value)
			} else {
				fail("not an int literal")
			}
		case "strconst":
			v := findValue(af, f.Ident)
			if bl, ok := v.(*ast.BasicLit); ok && bl.Kind == token.STRING {
				s, _ := strconv.Unquote(bl.Value)
				fmt.Fprintf(&b, "%sdef %s : String := %s\n", doc, f.Name, leanStr(s))
			} else {
				fail("not a string literal")
			}
		case "regex":
			v := findValue(af, f.Ident)
			ok := false
			if ce, isCall := v.(*ast.CallExpr); isCall && len(ce.Args) == 1 {
				if bl, isLit := ce.Args[0].(*ast.BasicLit); isLit && bl.Kind == token.STRING {
					s, _ := strconv.Unquote(bl.Value)
					fmt.Fprintf(&b, "%sdef %s : String := %s\n", doc, f.Name, leanStr(s))
					ok = true
				}
			}
			if !ok {
				fail("not regexp.MustCompile(<literal>)")
			}
		case "strlist":
			v := findValue(af, f.Ident)
			if f.Func != "" {
				v = nil
				if fd := findFunc(af, f.Func); fd != nil {
					v = findLocalValue(fd, f.Ident)
				}
			}
			cl, ok := v.(*ast.CompositeLit)
			if !ok {
				fail("not a composite literal")
				continue
			}
			var items []string
			good := true
			for _, e := range cl.Elts {
				bl, ok := e.(*ast.BasicLit)
				if !ok || bl.Kind != token.STRING {
					good = false
					break
				}
				s, _ := strconv.Unquote(bl.Value)
				items = append(items, leanStr(s))
			}
			if !good {
				fail("non-literal element")
				continue
			}
			fmt.Fprintf(&b, "%sdef %s : List String := [%s]\n", doc, f.Name, strings.Join(items, ", "))
		case "cond":
			fd := findFunc(af, f.Func)
			if fd == nil {
				fail("function not found")
				continue
			}
			ifs, rets := conds(fd)
			var e ast.Expr
			parts := strings.Split(f.Sel, "#")
			n, _ := strconv.Atoi(parts[1])
			if parts[0] == "if" && n < len(ifs) {
				e = ifs[n]
			} else if parts[0] == "return" && n < len(rets) {
				e = rets[n]
			}
			if e == nil {
				fail("site not found")
				continue
			}
			s, err := tr(e, f.Ps)
			if err != nil {
				fail(err.Error())
				continue
			}
			var bs []string
			for _, p := range f.Ps {
				bs = append(bs, fmt.Sprintf("(%s : %s)", p.Lean, p.Type))
			}
			fmt.Fprintf(&b, "/-- %s: %s %s  `%s` %s -/\ndef %s %s : Bool := %s\n", f.File, f.Func, f.Sel, strings.ReplaceAll(show(e), "-/", "- /"), f.Doc, f.Name, strings.Join(bs, " "), s)
		case "arg":
			// string literal passed as argument #Ident of the call that is the Sel-th return expression
			fd := findFunc(af, f.Func)
			if fd == nil {
				fail("function not found")
				continue
			}
			_, rets := conds(fd)
			parts := strings.Split(f.Sel, "#")
			n, _ := strconv.Atoi(parts[1])
			ai, _ := strconv.Atoi(f.Ident)
			done := false
			if n < len(rets) {
				if ce, ok := rets[n].(*ast.CallExpr); ok && ai < len(ce.Args) {
					if bl, ok := ce.Args[ai].(*ast.BasicLit); ok && bl.Kind == token.STRING {
						sv, _ := strconv.Unquote(bl.Value)
						fmt.Fprintf(&b, "/-- %s: %s %s argument %d of `%s` -/\ndef %s : String := %s\n", f.File, f.Func, f.Sel, ai, show(rets[n]), f.Name, leanStr(sv))
						done = true
					}
				}
			}
			if !done {
				fail("call argument literal not found")
			}
		case "markers":
			// the comment markers tested with strings.HasPrefix(t, "<lit>") in ParseComment, in source order,
			// and how many bytes are stripped for each: either a constant `t[N:]` or `t[len(marker):]` style
			fd := findFunc(af, f.Func)
			if fd == nil {
				fail("function not found")
				continue
			}
			type mk struct {
				lit   string
				strip string
			}
			var ms []mk
			ast.Inspect(fd.Body, func(n ast.Node) bool {
				ifs, ok := n.(*ast.IfStmt)
				if !ok {
					return true
				}
				var lits []string
				ast.Inspect(ifs.Cond, func(m ast.Node) bool {
					if ce, ok := m.(*ast.CallExpr); ok && show(ce.Fun) == "strings.HasPrefix" && len(ce.Args) == 2 && show(ce.Args[0]) == "t" {
						if bl, ok := ce.Args[1].(*ast.BasicLit); ok && bl.Kind == token.STRING {
							v, _ := strconv.Unquote(bl.Value)
							lits = append(lits, v)
						}
					}
					return true
				})
				if len(lits) == 0 {
					return true
				}
				// find the slice expression t[X:] in the body
				strip := ""
				ast.Inspect(ifs.Body, func(m ast.Node) bool {
					if se, ok := m.(*ast.SliceExpr); ok && show(se.X) == "t" && se.Low != nil && strip == "" {
						strip = show(se.Low)
					}
					return true
				})
				if strip == "" {
					return true
				}
				for _, l := range lits {
					ms = append(ms, mk{l, strip})
				}
				return true
			})
			if len(ms) == 0 {
				fail("marker test not found")
				continue
			}
			var names, cases []string
			ok := true
			for _, m := range ms {
				names = append(names, leanStr(m.lit))
				n := ""
				if _, err := strconv.Atoi(m.strip); err == nil {
					n = m.strip
				} else if m.strip == "len(marker)" || m.strip == "len(prefix)" {
					n = fmt.Sprint(len(m.lit))
				} else {
					ok = false
				}
				cases = append(cases, fmt.Sprintf("  | %s => %s", leanStr(m.lit), n))
			}
			if !ok {
				fail("unsupported strip expression " + ms[0].strip)
				continue
			}
			fmt.Fprintf(&b, "/-- %s: %s — comment markers tested by strings.HasPrefix, in order (strip expression `t[%s:]`) -/\ndef %s : List String := [%s]\n", f.File, f.Func, ms[0].strip, f.Name, strings.Join(names, ", "))
			fmt.Fprintf(&b, "/-- bytes stripped when the marker matched -/\ndef markerStrip : String → Nat\n%s\n  | _ => 0\n", strings.Join(cases, "\n"))
		case "assigns":
			// Bool: does the function assign `Ident` anywhere at its top level (any right-hand side)?
			fd := findFunc(af, f.Func)
			if fd == nil {
				fail("function not found")
				continue
			}
			ok, rhs := resets(fd, f.Ident)
			fmt.Fprintf(&b, "/-- %s: does `%s` assign `%s` at its top level? (rhs `%s`) %s -/\ndef %s : Bool := %v\n", f.File, f.Func, f.Ident, rhs, f.Doc, f.Name, ok)
		case "ifreturns":
			// Bool: does the Sel-th `if` (source order) of the function have a body that ends in a bare `return`?
			fd := findFunc(af, f.Func)
			if fd == nil {
				fail("function not found")
				continue
			}
			var ifstmts []*ast.IfStmt
			ast.Inspect(fd.Body, func(n ast.Node) bool {
				if x, ok := n.(*ast.IfStmt); ok {
					ifstmts = append(ifstmts, x)
				}
				return true
			})
			want := f.Ident // printed condition text to look for
			found := false
			val := false
			for _, x := range ifstmts {
				if show(x.Cond) == want {
					found = true
					if n := len(x.Body.List); n > 0 {
						if r, ok := x.Body.List[n-1].(*ast.ReturnStmt); ok && len(r.Results) == 0 {
							val = true
						}
					}
					break
				}
			}
			if !found {
				fail("if with condition `" + want + "` not found")
				continue
			}
			fmt.Fprintf(&b, "/-- %s: %s — does the body of `if %s` end in a bare return? %s -/\ndef %s : Bool := %v\n", f.File, f.Func, want, f.Doc, f.Name, val)
		case "unreset":
			// List String: package-level variables of the file that none of the functions `Func` (comma separated) assigns at its top level
			assigned := map[string]bool{}
			okf := true
			for _, fn := range strings.Split(f.Func, ",") {
				fd := findFunc(af, fn)
				if fd == nil {
					fail("function " + fn + " not found")
					okf = false
					break
				}
				for _, st := range fd.Body.List {
					if as, ok := st.(*ast.AssignStmt); ok {
						for _, l := range as.Lhs {
							assigned[show(l)] = true
						}
					}
				}
			}
			if !okf {
				continue
			}
			var un []string
			for _, d := range af.Decls {
				gd, ok := d.(*ast.GenDecl)
				if !ok || gd.Tok != token.VAR {
					continue
				}
				for _, sp := range gd.Specs {
					for _, n := range sp.(*ast.ValueSpec).Names {
						if !assigned[n.Name] {
							un = append(un, leanStr(n.Name))
						}
					}
				}
			}
			fmt.Fprintf(&b, "/-- %s: package-level variables that none of `%s` assigns at its top level %s -/\ndef %s : List String := [%s]\n", f.File, f.Func, f.Doc, f.Name, strings.Join(un, ", "))
		case "widthfn":
			// String: how the function computes the value stored under `Ident` (an assignment `Ident = …` or a composite-literal
			// field `Ident: …` whose printed value contains `Sel`): "runes" when it uses utf8.RuneCountInString, "bytes" when it uses len(
			fd := findFunc(af, f.Func)
			if fd == nil {
				fail("function not found")
				continue
			}
			txt := ""
			ast.Inspect(fd.Body, func(n ast.Node) bool {
				switch x := n.(type) {
				case *ast.AssignStmt:
					if len(x.Lhs) == 1 && len(x.Rhs) == 1 && show(x.Lhs[0]) == f.Ident && strings.Contains(show(x.Rhs[0]), f.Sel) && txt == "" {
						txt = show(x.Rhs[0])
					}
				case *ast.KeyValueExpr:
					if show(x.Key) == f.Ident && strings.Contains(show(x.Value), f.Sel) && txt == "" {
						txt = show(x.Value)
					}
				}
				return true
			})
			val := ""
			switch {
			case strings.Contains(txt, "utf8.RuneCountInString("+f.Sel+")"):
				val = "runes"
			case strings.Contains(txt, "len("+f.Sel+")"):
				val = "bytes"
			default:
				fail("no value of `" + f.Ident + "` mentioning `" + f.Sel + "` with a recognised width function: `" + txt + "`")
				continue
			}
			fmt.Fprintf(&b, "/-- %s: %s — `%s` is `%s` %s -/\ndef %s : String := %s\n", f.File, f.Func, f.Ident, txt, f.Doc, f.Name, leanStr(val))
		case "callarg":
			// String: the printed Sel-th argument of the first call of `Ident` in the function (whole file when Func is empty)
			var scope ast.Node = af
			if f.Func != "" {
				fd := findFunc(af, f.Func)
				if fd == nil {
					fail("function not found")
					continue
				}
				scope = fd.Body
			}
			ai, _ := strconv.Atoi(f.Sel)
			txt, found := "", false
			ast.Inspect(scope, func(n ast.Node) bool {
				if c, ok := n.(*ast.CallExpr); ok && !found && show(c.Fun) == f.Ident && ai < len(c.Args) {
					txt, found = show(c.Args[ai]), true
				}
				return true
			})
			if !found {
				fail("call of `" + f.Ident + "` not found")
				continue
			}
			fmt.Fprintf(&b, "/-- %s: %s — argument %d of the call of `%s` %s -/\ndef %s : String := %s\n", f.File, f.Func, ai, f.Ident, f.Doc, f.Name, leanStr(txt))
		case "callsfn":
			// Nat: how many statements (anywhere in the body) call the function `Ident`, and does the first come before the call of `Sel` (if given)?
			fd := findFunc(af, f.Func)
			if fd == nil {
				fail("function not found")
				continue
			}
			first, other := -1, -1
			idx := 0
			ast.Inspect(fd.Body, func(n ast.Node) bool {
				if c, ok := n.(*ast.CallExpr); ok {
					idx++
					if show(c.Fun) == f.Ident && first < 0 {
						first = idx
					}
					if f.Sel != "" && show(c.Fun) == f.Sel && other < 0 {
						other = idx
					}
				}
				return true
			})
			val := first >= 0 && (f.Sel == "" || (other >= 0 && first < other))
			fmt.Fprintf(&b, "/-- %s: does `%s` call `%s`%s? %s -/\ndef %s : Bool := %v\n", f.File, f.Func, f.Ident, map[bool]string{true: " before its first call of `" + f.Sel + "`", false: ""}[f.Sel != ""], f.Doc, f.Name, val)
		case "ifchain":
			// List String: the printed conditions of the if / else-if chain that starts with the condition `Ident`
			fd := findFunc(af, f.Func)
			if fd == nil {
				fail("function not found")
				continue
			}
			var chain []string
			ast.Inspect(fd.Body, func(n ast.Node) bool {
				if x, ok := n.(*ast.IfStmt); ok && chain == nil && show(x.Cond) == f.Ident {
					for cur := x; cur != nil; {
						chain = append(chain, leanStr(show(cur.Cond)))
						next, _ := cur.Else.(*ast.IfStmt)
						cur = next
					}
					return false
				}
				return true
			})
			if chain == nil {
				fail("if with condition `" + f.Ident + "` not found")
				continue
			}
			fmt.Fprintf(&b, "/-- %s: %s — conditions of the if/else-if chain, in order %s -/\ndef %s : List String := [%s]\n", f.File, f.Func, f.Doc, f.Name, strings.Join(chain, ", "))
		case "hasif":
			// Bool: does the function contain an `if` with exactly this printed condition?
			fd := findFunc(af, f.Func)
			if fd == nil {
				fail("function not found")
				continue
			}
			found := false
			ast.Inspect(fd.Body, func(n ast.Node) bool {
				if x, ok := n.(*ast.IfStmt); ok && show(x.Cond) == f.Ident {
					found = true
				}
				return true
			})
			fmt.Fprintf(&b, "/-- %s: does `%s` contain `if %s`? %s -/\ndef %s : Bool := %v\n", f.File, f.Func, strings.ReplaceAll(f.Ident, "-/", "- /"), f.Doc, f.Name, found)
		case "resets":
			fd := findFunc(af, f.Func)
			if fd == nil {
				fail("function not found")
				continue
			}
			ok, rhs := resets(fd, f.Ident)
			val := "none"
			if ok {
				if _, err := strconv.Atoi(rhs); err == nil {
					val = "some " + rhs
				} else if u, err := strconv.Unquote(rhs); err == nil {
					val = "some " + leanStr(u)
				} else {
					fail("reset to a non-literal: " + rhs)
					continue
				}
			}
			ty := "Nat"
			if f.Sel == "string" {
				ty = "String"
			}
			fmt.Fprintf(&b, "/-- %s: the literal `%s` assigns to `%s` at its top level (none = no such assignment) %s -/\ndef %s : Option %s := %s\n", f.File, f.Func, f.Ident, f.Doc, f.Name, ty, val)
		default:
			fail("unknown fact kind")
		}
	}
	sort.Strings(stale)
	var ss []string
	for _, s := range stale {
		ss = append(ss, leanStr(s))
	}
	fmt.Fprintf(&b, "/-- facts that could not be re-extracted (site moved / construct unsupported) -/\ndef stale : List String := [%s]\n", strings.Join(ss, ", "))
	fmt.Fprintf(&b, "end %s\n", ns)
	return b.String(), stale
}

func main() {
	if len(os.Args) < 3 {
		fmt.Fprintln(os.Stderr, "usage: extract <repo> <outdir>")
		os.Exit(2)
	}
	repo = os.Args[1]
	out := os.Args[2]
	status := map[string]interface{}{}
	var allStale []string
	changed := []string{}
	for _, g := range groups {
		txt, stale := emit(g)
		allStale = append(allStale, stale...)
		p := filepath.Join(out, g.File+".lean")
		old, _ := os.ReadFile(p)
		if string(old) != txt {
			if err := os.WriteFile(p, []byte(txt), 0644); err != nil {
				fmt.Fprintln(os.Stderr, err)
				os.Exit(1)
			}
			changed = append(changed, g.File)
		}
	}
	status["stale"] = allStale
	status["changed"] = changed
	status["groups"] = len(groups)
	b, _ := json.Marshal(status)
	fmt.Println(string(b))
}
