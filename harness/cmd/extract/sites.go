package main

// the table of extraction sites. Adding a site = one line here + its use in a Model.
var groups = []group{
	{File: "Call", Facts: []fact{
		{Kind: "const", Name: "maxLoopCount", File: "pkg/application/call/call_graph.go", Ident: "maxLoopCount"},
		{Kind: "const", Name: "loopDepth", File: "pkg/application/rcall/rcall_graph.go", Ident: "loopDepth"},
		{Kind: "cond", Name: "callBudgetHit", File: "pkg/application/call/call_graph.go", Func: "BuildCallChain", Sel: "if#0",
			Ps: []param{{"loopCount", "loopCount", "Nat"}, {"maxLoopCount", "maxLoopCount", "Nat"}}},
		{Kind: "cond", Name: "rcallBudgetHit", File: "pkg/application/rcall/rcall_graph.go", Func: "RCallGraph.BuildRCallChain", Sel: "if#0",
			Ps: []param{{"loopCount", "loopCount", "Nat"}, {"loopDepth", "loopDepth", "Nat"}}},
		{Kind: "resets", Name: "analysisResets", File: "pkg/application/call/call_graph.go", Func: "CallGraph.Analysis", Ident: "loopCount"},
		{Kind: "resets", Name: "newRCallGraphResetsLoop", File: "pkg/application/rcall/rcall_graph.go", Func: "NewRCallGraph", Ident: "loopCount"},
		{Kind: "resets", Name: "newRCallGraphResetsLast", File: "pkg/application/rcall/rcall_graph.go", Func: "NewRCallGraph", Ident: "lastChild", Sel: "string"},
	}},
}
