package main

import (
	"encoding/json"
	"fmt"
	"os"
	"os/exec"
	"path/filepath"
	"sort"
	"strings"

	"github.com/modernizing/coca/cmd"
	gitapp "github.com/modernizing/coca/pkg/application/git"
)

func init() { register("git", gitFamily) }

type gitOp struct {
	Op      string
	Path    string
	To      string
	Content string
	Hex     string // binary content (hex)
}

type gitCommit struct {
	Author  string
	Email   string
	Date    string // YYYY-MM-DD
	Subject string
	Ops     []gitOp
	// merge: create a side branch from the parent with SideOps, commit it, merge it (no-ff)
	SideOps []gitOp
}

func runGit(dir string, env []string, args ...string) (string, error) {
	c := exec.Command("git", args...)
	c.Dir = dir
	c.Env = append(os.Environ(), "GIT_CONFIG_NOSYSTEM=1", "HOME="+dir, "LC_ALL=C")
	c.Env = append(c.Env, env...)
	out, err := c.CombinedOutput()
	if err != nil {
		return string(out), fmt.Errorf("git %v: %v: %s", args, err, out)
	}
	return string(out), nil
}

func applyOps(dir string, ops []gitOp) error {
	for _, o := range ops {
		p := filepath.Join(dir, o.Path)
		switch o.Op {
		case "write":
			os.MkdirAll(filepath.Dir(p), 0755)
			if err := os.WriteFile(p, []byte(o.Content), 0644); err != nil {
				return err
			}
		case "binary":
			os.MkdirAll(filepath.Dir(p), 0755)
			b := []byte{0, 1, 2, 0xff, 0, 0xfe}
			b = append(b, []byte(o.Content)...)
			if err := os.WriteFile(p, b, 0644); err != nil {
				return err
			}
		case "rm":
			if _, err := runGit(dir, nil, "rm", "-q", "--", o.Path); err != nil {
				return err
			}
		case "mv":
			os.MkdirAll(filepath.Dir(filepath.Join(dir, o.To)), 0755)
			if _, err := runGit(dir, nil, "mv", "--", o.Path, o.To); err != nil {
				return err
			}
		}
	}
	return nil
}

func commitEnv(c gitCommit, i int) []string {
	d := fmt.Sprintf("%sT%02d:%02d:00+0000", c.Date, 8+i/60, i%60)
	return []string{"GIT_AUTHOR_NAME=" + c.Author, "GIT_AUTHOR_EMAIL=" + c.Email, "GIT_AUTHOR_DATE=" + d,
		"GIT_COMMITTER_NAME=" + c.Author, "GIT_COMMITTER_EMAIL=" + c.Email, "GIT_COMMITTER_DATE=" + d}
}

func changesOut(cs []gitapp.FileChange) []map[string]interface{} {
	out := []map[string]interface{}{}
	for _, c := range cs {
		out = append(out, map[string]interface{}{"Added": c.Added, "Deleted": c.Deleted, "File": c.File, "Mode": c.Mode})
	}
	sort.Slice(out, func(i, j int) bool {
		a, _ := json.Marshal(out[i])
		b, _ := json.Marshal(out[j])
		return string(a) < string(b)
	})
	return out
}

func commitsOut(cs []gitapp.CommitMessage) []map[string]interface{} {
	out := []map[string]interface{}{}
	for _, c := range cs {
		out = append(out, map[string]interface{}{"Rev": c.Rev, "Author": c.Author, "Date": c.Date, "Message": c.Message, "Changes": changesOut(c.Changes)})
	}
	return out
}

func gitFamily(c map[string]json.RawMessage) (interface{}, error) {
	switch str(c, "op") {
	case "parse":
		return map[string]interface{}{"commits": commitsOut(gitapp.BuildMessageByInput(str(c, "text")))}, nil
	case "regex":
		line := str(c, "line")
		res := map[string]interface{}{}
		for name, re := range gitapp.VerifRegexps() {
			m := re.FindStringSubmatch(line)
			if m == nil {
				res[name] = nil
			} else {
				res[name] = m
			}
		}
		res["revAll"] = len(gitapp.VerifRegexps()["rev"].FindAllString(line, -1))
		return res, nil
	case "summary":
		var commits []gitapp.CommitMessage
		if err := json.Unmarshal(c["commits"], &commits); err != nil {
			return nil, err
		}
		team := gitapp.GetTeamSummary(commits)
		top := gitapp.GetTopAuthors(commits)
		basic := gitapp.BasicSummary(commits)
		ages := gitapp.CalculateCodeAge(commits)
		cm := gitapp.BuildChangeMap(commits)
		teamO := []map[string]interface{}{}
		for _, t := range team {
			teamO = append(teamO, map[string]interface{}{"EntityName": t.EntityName, "AuthorCount": t.AuthorCount, "RevsCount": t.RevsCount})
		}
		topO := []map[string]interface{}{}
		for _, t := range top {
			topO = append(topO, map[string]interface{}{"Name": t.Name, "CommitCount": t.CommitCount, "LineCount": t.LineCount})
		}
		ageO := []map[string]interface{}{}
		for _, a := range ages {
			ageO = append(ageO, map[string]interface{}{"EntityName": a.EntityName, "Date": a.Age.Format("2006-01-02")})
		}
		return map[string]interface{}{"team": teamO, "top": topO, "age": ageO, "changelog": cm,
			"basic": map[string]int{"Commits": basic.Commits, "Entities": basic.Entities, "Changes": basic.Changes, "Authors": basic.Authors}}, nil
	case "gitrepo", "summaryrepo":
		var hist []gitCommit
		if err := json.Unmarshal(c["history"], &hist); err != nil {
			return nil, err
		}
		dir, err := buildRepo(hist, boolean(c, "quotepath"))
		if dir != "" {
			defer os.RemoveAll(dir)
		}
		if err != nil {
			return nil, err
		}
		if str(c, "op") == "summaryrepo" {
			return summaryRepo(dir)
		}
		// ground truth, read independently of the log text under test
		logOut, err := runGit(dir, nil, "log", "--reverse", "--date=short", "--format=%h%x1f%aN%x1f%ad%x1f%s%x1f%P")
		if err != nil {
			return nil, err
		}
		truth := []map[string]interface{}{}
		for _, l := range strings.Split(strings.TrimRight(logOut, "\n"), "\n") {
			f := strings.Split(l, "\x1f")
			if len(f) < 5 {
				continue
			}
			ns, _ := runGit(dir, nil, "diff-tree", "--no-commit-id", "--numstat", "--summary", "-M", "-r", "--root", f[0])
			truth = append(truth, map[string]interface{}{"hash": f[0], "author": f[1], "date": f[2], "subject": f[3],
				"parents": len(strings.Fields(f[4])), "numstat": ns})
		}
		// the exact invocation of `coca git`, in that repository
		wd, _ := os.Getwd()
		os.Chdir(dir)
		os.Setenv("GIT_CONFIG_NOSYSTEM", "1")
		os.Setenv("HOME", dir)
		text := cmd.VerifGetCommitMessage()
		os.Chdir(wd)
		var parsed []gitapp.CommitMessage
		if !boolean(c, "cli") {
			parsed = gitapp.BuildMessageByInput(text)
		} else {
			// the command itself, in that repository, in a fresh process: `coca git -b` leaves coca_reporter/commits.json there
			os.Setenv("GIT_CONFIG_NOSYSTEM", "1")
			os.Setenv("HOME", dir)
			if _, err := cocaCli(dir, "git", "-b"); err != nil {
				return nil, err
			}
			b, err := os.ReadFile(filepath.Join(dir, "coca_reporter", "commits.json"))
			if err != nil {
				return nil, err
			}
			var fromCli []gitapp.CommitMessage
			if err := json.Unmarshal(b, &fromCli); err != nil {
				return map[string]interface{}{"reportUnreadable": err.Error()}, nil
			}
			parsed = fromCli
		}
		return map[string]interface{}{"text": text, "commits": commitsOut(parsed), "truth": truth}, nil
	}
	return nil, nil
}

// buildRepo replays a generated history (commits with file operations, optional side branch + merge) in a fresh repository
func buildRepo(hist []gitCommit, quotepath bool) (string, error) {
	dir, err := os.MkdirTemp("", "cvg")
	if err != nil {
		return dir, err
	}
	if _, err := runGit(dir, nil, "init", "-q", "-b", "main", "."); err != nil {
		return dir, err
	}
	if !quotepath {
		// (with git's default, paths with non-ASCII bytes are printed C-quoted)
		runGit(dir, nil, "config", "core.quotepath", "off")
	}
	for i, cm := range hist {
		env := commitEnv(cm, i)
		if len(cm.SideOps) > 0 {
			if _, err := runGit(dir, nil, "checkout", "-q", "-b", fmt.Sprintf("side%d", i)); err != nil {
				return dir, err
			}
			if err := applyOps(dir, cm.SideOps); err != nil {
				return dir, err
			}
			runGit(dir, nil, "add", "-A")
			if _, err := runGit(dir, env, "commit", "-q", "--allow-empty", "-m", cm.Subject+" (side)"); err != nil {
				return dir, err
			}
			runGit(dir, nil, "checkout", "-q", "main")
		}
		if err := applyOps(dir, cm.Ops); err != nil {
			return dir, err
		}
		runGit(dir, nil, "add", "-A")
		if _, err := runGit(dir, env, "commit", "-q", "--allow-empty", "-m", cm.Subject); err != nil {
			return dir, err
		}
		if len(cm.SideOps) > 0 {
			if _, err := runGit(dir, env, "merge", "-q", "--no-ff", "-m", "Merge side "+cm.Subject, fmt.Sprintf("side%d", i)); err != nil {
				return dir, err
			}
		}
	}
	return dir, nil
}

// summaryRepo: the command itself in that repository, in a fresh process: `coca git -b -t -o`. The commits are read back from
// coca_reporter/commits.json, the printed tables are returned as they are (header + rows each)
func summaryRepo(dir string) (interface{}, error) {
	os.Setenv("GIT_CONFIG_NOSYSTEM", "1")
	os.Setenv("HOME", dir)
	stdout, err := cocaCli(dir, "git", "-b", "-t", "-o")
	if err != nil {
		return nil, err
	}
	b, err := os.ReadFile(filepath.Join(dir, "coca_reporter", "commits.json"))
	if err != nil {
		return nil, err
	}
	var commits []gitapp.CommitMessage
	if err := json.Unmarshal(b, &commits); err != nil {
		return map[string]interface{}{"reportUnreadable": err.Error()}, nil
	}
	tables := []map[string]interface{}{}
	lines := strings.Split(stdout, "\n")
	for i := 0; i < len(lines); i++ {
		if !strings.HasPrefix(lines[i], "|") || i+1 >= len(lines) || !strings.HasPrefix(lines[i+1], "|-") {
			continue
		}
		cells := func(l string) []string {
			parts := strings.Split(l, "|")
			out := []string{}
			for _, p := range parts[1 : len(parts)-1] {
				out = append(out, strings.TrimSpace(p))
			}
			return out
		}
		t := map[string]interface{}{"header": cells(lines[i])}
		rows := [][]string{}
		k := i + 2
		for ; k < len(lines) && strings.HasPrefix(lines[k], "|") && !(k+1 < len(lines) && strings.HasPrefix(lines[k+1], "|-")); k++ {
			rows = append(rows, cells(lines[k]))
		}
		t["rows"] = rows
		tables = append(tables, t)
		i = k - 1
	}
	return map[string]interface{}{"commits": commits, "tables": tables}, nil
}
