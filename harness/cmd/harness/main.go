// harness: executes the REAL coca code on cases produced by the generators and prints canonical
// JSON results, one line per case. It contains no oracle logic. One process = one history: the
// process-global state of coca's packages is deliberately carried from case to case.
package main

import (
	"bufio"
	"encoding/json"
	"fmt"
	"os"
	"runtime/debug"
	"strings"
)

type handler func(c map[string]json.RawMessage) (interface{}, error)

var families = map[string]handler{}

func register(name string, h handler) { families[name] = h }

func panicSite(stack string) string {
	// first frame inside the coca module, e.g. "pkg/application/todo/astitodo/astitodo.go:88"
	lines := strings.Split(stack, "\n")
	for _, l := range lines {
		l = strings.TrimSpace(l)
		if i := strings.Index(l, "/repo/"); i >= 0 && strings.Contains(l, ".go:") {
			s := l[i+len("/repo/"):]
			if j := strings.Index(s, " "); j >= 0 {
				s = s[:j]
			}
			return s
		}
	}
	return "?"
}

func cocaFrames(stack string) []string {
	var out []string
	for _, l := range strings.Split(stack, "\n") {
		l = strings.TrimSpace(l)
		if i := strings.Index(l, "/repo/"); i >= 0 && strings.Contains(l, ".go:") {
			s := l[i+len("/repo/"):]
			if j := strings.Index(s, " "); j >= 0 {
				s = s[:j]
			}
			out = append(out, s)
			if len(out) >= 8 {
				break
			}
		}
	}
	return out
}

var lastFrames []string

func runOne(h handler, c map[string]json.RawMessage) (out interface{}, pan string, site string) {
	defer func() {
		if r := recover(); r != nil {
			st := string(debug.Stack())
			pan = fmt.Sprint(r)
			if cp, ok := r.(cliPanic); ok {
				st, pan = cp.stack, cp.msg // the panic happened in the CLI process: its own stack names the site
			}
			site = panicSite(st)
			lastFrames = cocaFrames(st)
			out = nil
		}
	}()
	o, err := h(c)
	if err != nil {
		return map[string]string{"error": err.Error()}, "", ""
	}
	return o, "", ""
}

func str(c map[string]json.RawMessage, k string) string {
	var s string
	if v, ok := c[k]; ok {
		_ = json.Unmarshal(v, &s)
	}
	return s
}

func boolean(c map[string]json.RawMessage, k string) bool {
	var b bool
	if v, ok := c[k]; ok {
		_ = json.Unmarshal(v, &b)
	}
	return b
}

func integer(c map[string]json.RawMessage, k string) int {
	var b int
	if v, ok := c[k]; ok {
		_ = json.Unmarshal(v, &b)
	}
	return b
}

func main() {
	if len(os.Args) >= 2 && os.Args[1] == "__cli" {
		// run the real coca CLI in this (fresh) process: `harness __cli <coca args...>`
		runCli(os.Args[2:])
		return
	}
	if len(os.Args) >= 2 && os.Args[1] == "__cli_dep" {
		runDepCli(os.Args[2:])
		return
	}
	if len(os.Args) < 4 {
		fmt.Fprintln(os.Stderr, "usage: harness <family> <cases.jsonl> <out.jsonl>")
		os.Exit(2)
	}
	h, ok := families[os.Args[1]]
	if !ok {
		fmt.Fprintln(os.Stderr, "unknown family", os.Args[1])
		os.Exit(2)
	}
	inf, err := os.Open(os.Args[2])
	if err != nil {
		fmt.Fprintln(os.Stderr, err)
		os.Exit(2)
	}
	outf, err := os.Create(os.Args[3])
	if err != nil {
		fmt.Fprintln(os.Stderr, err)
		os.Exit(2)
	}
	in := bufio.NewReaderSize(inf, 1<<20)
	w := bufio.NewWriter(outf)
	for {
		line, err := in.ReadBytes('\n')
		if len(line) > 1 {
			var c map[string]json.RawMessage
			if e := json.Unmarshal(line, &c); e != nil {
				fmt.Fprintln(os.Stderr, "bad case line:", e)
				os.Exit(2)
			}
			id := integer(c, "id")
			out, pan, site := runOne(h, c)
			res := map[string]interface{}{"id": id}
			if pan != "" {
				res["panic"] = pan
				res["site"] = site
				res["frames"] = lastFrames
			} else {
				res["out"] = out
			}
			b, e := json.Marshal(res)
			if e != nil {
				b, _ = json.Marshal(map[string]interface{}{"id": id, "panic": "unserialisable: " + e.Error(), "site": "json"})
			}
			w.Write(b)
			w.WriteByte('\n')
			w.Flush()
		}
		if err != nil {
			break
		}
	}
	outf.Close()
}
