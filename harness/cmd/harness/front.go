package main

import (
	"encoding/json"
	goparser "go/parser"
	"go/token"
	"io"
	"os"
	"path/filepath"
	"sort"
	"strings"

	"github.com/antlr/antlr4/runtime/Go/antlr/v4"
	goclI "github.com/modernizing/coca/analysis/golang/app"
	pycli "github.com/modernizing/coca/analysis/python/app"
	pyparser "github.com/modernizing/coca/languages/python"
	"github.com/modernizing/coca/pkg/adapter/cocafile"
	"github.com/modernizing/coca/pkg/application/analysis/app_concept"
	"github.com/modernizing/coca/pkg/application/analysis/goapp"
	"github.com/modernizing/coca/pkg/application/analysis/pyapp"
	"github.com/modernizing/coca/pkg/domain/core_domain"
	"github.com/spf13/cobra"
)

func init() { register("front", frontFamily) }

func propsJ(ps []core_domain.CodeProperty) []interface{} {
	out := []interface{}{}
	for _, p := range ps {
		out = append(out, map[string]interface{}{"ParamName": p.ParamName, "TypeType": p.TypeType, "TypeValue": p.TypeValue,
			"Parameters": propsJ(p.Parameters), "ReturnTypes": propsJ(p.ReturnTypes)})
	}
	return out
}

func gcallsJ(cs []core_domain.CodeCall) []interface{} {
	out := []interface{}{}
	for _, c := range cs {
		ps := []interface{}{}
		for _, p := range c.Parameters {
			ps = append(ps, []string{p.TypeType, p.TypeValue})
		}
		out = append(out, map[string]interface{}{"Package": c.Package, "Type": c.Type, "NodeName": c.NodeName, "FunctionName": c.FunctionName, "Parameters": ps})
	}
	return out
}

func fnsJ(fs []core_domain.CodeFunction) []interface{} {
	out := []interface{}{}
	for _, f := range fs {
		out = append(out, map[string]interface{}{"Name": f.Name, "Parameters": propsJ(f.Parameters), "MultipleReturns": propsJ(f.MultipleReturns),
			"FunctionCalls": gcallsJ(f.FunctionCalls), "Annotations": annosJ(f.Annotations)})
	}
	return out
}

func dsJ(ds []core_domain.CodeDataStruct) []interface{} {
	out := []interface{}{}
	for _, d := range ds {
		out = append(out, map[string]interface{}{"NodeName": d.NodeName, "Package": d.Package, "InOutProperties": propsJ(d.InOutProperties),
			"Functions": fnsJ(d.Functions), "FunctionCalls": gcallsJ(d.FunctionCalls), "Annotations": annosJ(d.Annotations)})
	}
	return out
}

func containerJ(c core_domain.CodeContainer, strip string) map[string]interface{} {
	imps := []interface{}{}
	for _, i := range c.Imports {
		un := i.UsageName
		if un == nil {
			un = []string{}
		}
		imps = append(imps, map[string]interface{}{"Source": i.Source, "AsName": i.AsName, "UsageName": un})
	}
	mems := []interface{}{}
	for _, m := range c.Members {
		mems = append(mems, map[string]interface{}{"DataStructID": m.DataStructID, "Type": m.Type, "Name": m.Name, "AliasPackage": m.AliasPackage,
			"FunctionNodes": fnsJ(m.FunctionNodes)})
	}
	fields := []interface{}{}
	for _, f := range c.Fields {
		fields = append(fields, []string{f.TypeType, f.TypeValue})
	}
	return map[string]interface{}{"File": strings.TrimPrefix(c.FullName, strip), "PackageName": c.PackageName, "Imports": imps, "Members": mems,
		"DataStructures": dsJ(c.DataStructures), "Fields": fields}
}

// the two loops of CommonAnalysis, keeping the per-file containers (CommonAnalysis itself only returns the flattened list)
func perFile(dir string, app app_concept.AbstractAnalysisApp, filter func(string) bool) ([]core_domain.CodeContainer, []string) {
	files := cocafile.GetFilesWithFilter(dir, filter)
	var members []core_domain.CodeMember
	app.AnalysisPackageManager(dir)
	for _, f := range files {
		b, _ := os.ReadFile(f)
		members = append(members, app.IdentAnalysis(string(b), f)...)
	}
	var out []core_domain.CodeContainer
	for _, f := range files {
		b, _ := os.ReadFile(f)
		app.SetExtensions(members)
		out = append(out, app.Analysis(string(b), f))
	}
	return out, files
}

// C20, no-crash clause on real-world sources: one file of a corpus on disk (Go toolchain sources, Python standard library)
// through the front-end when its parser accepts it.  Only termination is judged.
func corpusFile(lang, path string) (interface{}, error) {
	b, err := os.ReadFile(path)
	if err != nil {
		return map[string]interface{}{"rejected": "unreadable"}, nil
	}
	if lang == "go" {
		if _, err := goparser.ParseFile(token.NewFileSet(), path, b, 0); err != nil {
			return map[string]interface{}{"rejected": "go/parser"}, nil
		}
		app := new(goapp.GoIdentApp)
		members := app.IdentAnalysis(string(b), path)
		app.SetExtensions(members)
		cont := app.Analysis(string(b), path)
		if _, err := json.Marshal(cont); err != nil {
			return map[string]interface{}{"unserialisable": err.Error()}, nil
		}
		return map[string]interface{}{"ok": true}, nil
	}
	ec := &errCounter{DefaultErrorListener: antlr.NewDefaultErrorListener()}
	lexer := pyparser.NewPythonLexer(antlr.NewInputStream(string(b)))
	lexer.RemoveErrorListeners()
	lexer.AddErrorListener(ec)
	pp := pyparser.NewPythonParser(antlr.NewCommonTokenStream(lexer, antlr.TokenDefaultChannel))
	pp.RemoveErrorListeners()
	pp.AddErrorListener(ec)
	pp.Root()
	if ec.n != 0 {
		return map[string]interface{}{"rejected": "python parser"}, nil
	}
	cont := new(pyapp.PythonIdentApp).Analysis(string(b), path)
	if _, err := json.Marshal(cont); err != nil {
		return map[string]interface{}{"unserialisable": err.Error()}, nil
	}
	return map[string]interface{}{"ok": true}, nil
}

func frontFamily(c map[string]json.RawMessage) (interface{}, error) {
	if op := str(c, "op"); op == "gocorpus" || op == "pycorpus" {
		r, err := corpusFile(op[:2], str(c, "path"))
		return map[string]interface{}{"corpus": true, "status": r}, err
	}
	dir, err := writeTree(c, "files")
	if dir != "" {
		defer os.RemoveAll(dir)
	}
	if err != nil {
		return nil, err
	}
	strip := dir + string(os.PathSeparator)
	var app app_concept.AbstractAnalysisApp
	var filter func(string) bool
	switch str(c, "op") {
	case "go":
		app, filter = new(goapp.GoIdentApp), cocafile.GoFileFilter
	case "py":
		app, filter = new(pyapp.PythonIdentApp), cocafile.PythonFileFilter
	default:
		return map[string]string{"error": "unknown op"}, nil
	}
	cs, names := perFile(dir, app, filter)
	containers := []interface{}{}
	for i, x := range cs {
		j := containerJ(x, strip)
		j["FullName"] = j["File"]
		j["File"] = filepath.ToSlash(strings.TrimPrefix(names[i], strip))
		containers = append(containers, j)
	}
	sort.Slice(containers, func(i, j int) bool {
		return containers[i].(map[string]interface{})["File"].(string) < containers[j].(map[string]interface{})["File"].(string)
	})
	// the command itself: `coca-<lang> analysis -p <dir>` in-process, result read back from coca_reporter/<lang>deps.json
	cwd, _ := os.Getwd()
	_ = os.Chdir(dir)
	var root *cobra.Command
	depsName := "godeps.json"
	if str(c, "op") == "go" {
		root = goclI.NewRootCmd(io.Discard)
	} else {
		root = pycli.NewRootCmd(io.Discard)
		depsName = "pydeps.json"
	}
	root.SetArgs([]string{"analysis", "-p", dir})
	_ = root.Execute()
	var flat []core_domain.CodeDataStruct
	if b, err := os.ReadFile(filepath.Join(dir, "coca_reporter", depsName)); err == nil {
		_ = json.Unmarshal(b, &flat)
	}
	_ = os.Chdir(cwd)
	res := map[string]interface{}{"containers": containers, "flat": dsJ(flat)}
	if boolean(c, "unmodelled") {
		res["unmodelled"] = true // shapes outside the Lean model (judged by the statement-level oracle only)
	}
	return res, nil
}
