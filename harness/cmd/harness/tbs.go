package main

import (
	"encoding/json"
	"os"
	"strings"

	"github.com/modernizing/coca/pkg/adapter/cocafile"
	"github.com/modernizing/coca/pkg/application/analysis/javaapp"
	"github.com/modernizing/coca/pkg/application/tbs"
	"github.com/modernizing/coca/pkg/domain/core_domain"
)

func init() { register("tbs", tbsFamily) }

type tfinding struct {
	FileName string
	Type     string
	Line     int
}

func tbsFamily(c map[string]json.RawMessage) (interface{}, error) {
	var clzs []core_domain.CodeDataStruct
	strip := ""
	if str(c, "op") == "tbsdir" {
		// the pipeline of cmd/tbs.go: test files -> identifier pass -> full pass -> tbs
		dir, err := writeTree(c, "files")
		if dir != "" {
			defer os.RemoveAll(dir)
		}
		if err != nil {
			return nil, err
		}
		strip = dir + string(os.PathSeparator)
		files := cocafile.GetJavaTestFiles(dir)
		identApp := javaapp.NewJavaIdentifierApp()
		identifiers := identApp.AnalysisFiles(files)
		fullApp := javaapp.NewJavaFullApp()
		clzs = fullApp.AnalysisFiles(identifiers, files)
	} else {
		if err := json.Unmarshal(c["clzs"], &clzs); err != nil {
			return nil, err
		}
	}
	res := tbs.NewTbsApp().AnalysisPath(clzs, core_domain.BuildIdentifierMap(clzs))
	out := []tfinding{}
	for _, r := range res {
		out = append(out, tfinding{strings.TrimPrefix(r.FileName, strip), r.Type, r.Line})
	}
	if strip != "" {
		for i := range clzs {
			clzs[i].FilePath = strings.TrimPrefix(clzs[i].FilePath, strip)
		}
		return map[string]interface{}{"findings": out, "deps": clzs}, nil
	}
	return map[string]interface{}{"findings": out}, nil
}
