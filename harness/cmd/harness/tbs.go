package main

import (
	"encoding/json"
	"os"
	"strings"

	"github.com/modernizing/coca/pkg/adapter/cocafile"
	"github.com/modernizing/coca/pkg/application/analysis/javaapp"
	"github.com/modernizing/coca/pkg/application/tbs"
	"github.com/modernizing/coca/pkg/domain/core_domain"
)

func init() { register("tbs", tbsFamily) }

type tfinding struct {
	FileName string
	Type     string
	Line     int
}

func tbsFamily(c map[string]json.RawMessage) (interface{}, error) {
	var clzs []core_domain.CodeDataStruct
	strip := ""
	if str(c, "op") == "tbsdir" {
		// the pipeline of cmd/tbs.go: test files -> identifier pass -> full pass -> tbs
		dir, err := writeTree(c, "files")
		if dir != "" {
			defer os.RemoveAll(dir)
		}
		if err != nil {
			return nil, err
		}
		strip = dir + string(os.PathSeparator)
		if boolean(c, "cli") {
			// `coca tbs -p dir`: coca_reporter/tbs.json (findings) and tdeps.json (the code model of the test files)
			work, err := newWork()
			if err != nil {
				return nil, err
			}
			defer os.RemoveAll(work)
			if boolean(c, "relroot") {
				// run from inside the tree with the relative root `.` (the command's default): the report lands in the tree
				work = dir
				if _, err := cocaCli(dir, "tbs", "-p", "."); err != nil {
					return nil, err
				}
				strip = ""
			} else if _, err := cocaCli(work, "tbs", "-p", dir); err != nil {
				return nil, err
			}
			var res []tfinding
			b, err := getReport(work, "tbs.json")
			if err != nil {
				return nil, err
			}
			if err := json.Unmarshal(b, &res); err != nil {
				return map[string]interface{}{"reportUnreadable": err.Error()}, nil
			}
			out := []tfinding{}
			for _, r := range res {
				out = append(out, tfinding{strings.TrimPrefix(r.FileName, strip), r.Type, r.Line})
			}
			if b, err := getReport(work, "tdeps.json"); err == nil {
				_ = json.Unmarshal(b, &clzs)
			}
			for i := range clzs {
				clzs[i].FilePath = strings.TrimPrefix(clzs[i].FilePath, strip)
			}
			return map[string]interface{}{"findings": out, "deps": clzs}, nil
		}
		files := cocafile.GetJavaTestFiles(dir)
		identApp := javaapp.NewJavaIdentifierApp()
		identifiers := identApp.AnalysisFiles(files)
		fullApp := javaapp.NewJavaFullApp()
		clzs = fullApp.AnalysisFiles(identifiers, files)
	} else {
		if err := json.Unmarshal(c["clzs"], &clzs); err != nil {
			return nil, err
		}
	}
	res := tbs.NewTbsApp().AnalysisPath(clzs, core_domain.BuildIdentifierMap(clzs))
	out := []tfinding{}
	for _, r := range res {
		out = append(out, tfinding{strings.TrimPrefix(r.FileName, strip), r.Type, r.Line})
	}
	if strip != "" {
		for i := range clzs {
			clzs[i].FilePath = strings.TrimPrefix(clzs[i].FilePath, strip)
		}
		return map[string]interface{}{"findings": out, "deps": clzs}, nil
	}
	return map[string]interface{}{"findings": out}, nil
}
