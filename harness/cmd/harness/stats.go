package main

import (
	"encoding/json"
	"fmt"
	"sort"

	"github.com/modernizing/coca/pkg/application/concept"
	"github.com/modernizing/coca/pkg/application/count"
	"github.com/modernizing/coca/pkg/application/evaluate"
	"github.com/modernizing/coca/pkg/domain/core_domain"
	"github.com/modernizing/coca/pkg/infrastructure/string_helper"
)

func init() { register("stats", statsFamily) }

func statsFamily(c map[string]json.RawMessage) (interface{}, error) {
	var clzs []core_domain.CodeDataStruct
	if err := json.Unmarshal(c["clzs"], &clzs); err != nil {
		return nil, err
	}
	switch str(c, "op") {
	case "count":
		m := count.BuildCallMap(clzs)
		pl := string_helper.SortWord(m)
		if pl == nil {
			pl = string_helper.PairList{}
		}
		return map[string]interface{}{"pairs": pl}, nil
	case "concept":
		pl := concept.NewConceptAnalyser().Analysis(&clzs)
		if pl == nil {
			pl = string_helper.PairList{}
		}
		return map[string]interface{}{"pairs": pl}, nil
	case "evaluate":
		var ids []core_domain.CodeDataStruct
		if err := json.Unmarshal(c["identifiers"], &ids); err != nil {
			return nil, err
		}
		r := evaluate.NewEvaluateAnalyser().Analysis(clzs, ids)
		items := append([]string{}, r.Nullable.Items...)
		sort.Strings(items)
		return map[string]interface{}{"UtilsCount": r.Summary.UtilsCount, "ClassCount": r.Summary.ClassCount,
			"MethodCount": r.Summary.MethodCount, "StaticMethodCount": r.Summary.StaticMethodCount, "Nullable": items,
			"full": asCollection(map[string]interface{}{"Nullable": r.Nullable, "ServiceSummary": r.ServiceSummary, "UtilsSummary": r.UtilsSummary,
				"UtilsCount": r.Summary.UtilsCount, "ClassCount": r.Summary.ClassCount, "MethodCount": r.Summary.MethodCount,
				"NormalMethodCount": r.Summary.NormalMethodCount, "TotalMethodLength": r.Summary.TotalMethodLength,
				"StaticMethodCount": r.Summary.StaticMethodCount,
				// the deviations can be NaN, which JSON cannot carry
				"MethodLengthStdDeviation": fmt.Sprintf("%v", r.Summary.MethodLengthStdDeviation),
				"MethodNumStdDeviation":    fmt.Sprintf("%v", r.Summary.MethodNumStdDeviation)})}, nil
	}
	return nil, nil
}

// the whole evaluation result (what `coca evaluate` writes to evaluate.json) as a collection: every list sorted by the
// JSON text of its elements, maps by key (C08 compares it between runs; the Lean model does not produce it)
func asCollection(v interface{}) string {
	raw, err := json.Marshal(v)
	if err != nil {
		return "marshal error: " + err.Error()
	}
	var x interface{}
	_ = json.Unmarshal(raw, &x)
	out, _ := json.Marshal(canonColl(x))
	return string(out)
}

func canonColl(x interface{}) interface{} {
	switch t := x.(type) {
	case map[string]interface{}:
		for k, v := range t {
			t[k] = canonColl(v)
		}
		return t
	case []interface{}:
		keys := make([]string, len(t))
		for i, v := range t {
			t[i] = canonColl(v)
			b, _ := json.Marshal(t[i])
			keys[i] = string(b)
		}
		sort.Strings(keys)
		outl := make([]interface{}, len(keys))
		for i, k := range keys {
			outl[i] = json.RawMessage(k)
		}
		return outl
	}
	return x
}
