package main

import (
	"bytes"
	"encoding/json"
	"fmt"
	"os"
	"os/exec"
	"path/filepath"
	"sort"
	"strconv"
	"strings"
	"time"

	"github.com/modernizing/coca/pkg/application/analysis/javaapp"
	"github.com/modernizing/coca/pkg/application/concept"
	"github.com/modernizing/coca/pkg/application/count"
	"github.com/modernizing/coca/pkg/application/evaluate"
	"github.com/modernizing/coca/pkg/domain/core_domain"
	"github.com/modernizing/coca/pkg/infrastructure/string_helper"
)

func init() { register("stats", statsFamily) }

func statsFamily(c map[string]json.RawMessage) (interface{}, error) {
	if str(c, "op") == "evaluatesrc" {
		return evaluateSrc(c)
	}
	var clzs []core_domain.CodeDataStruct
	if err := json.Unmarshal(c["clzs"], &clzs); err != nil {
		return nil, err
	}
	switch str(c, "op") {
	case "count":
		m := count.BuildCallMap(clzs)
		pl := string_helper.SortWord(m)
		if pl == nil {
			pl = string_helper.PairList{}
		}
		res := map[string]interface{}{"pairs": pl}
		// the listing as the user sees it: the REAL `coca count -d deps.json [-t n]`, several times, each in a fresh process
		if n := integer(c, "cliRuns"); n > 0 {
			runs, err := countCli(c["clzs"], n, integer(c, "top"))
			if err != nil {
				res["cliError"] = err.Error()
			}
			res["cli"] = runs
		}
		return res, nil
	case "concept":
		if boolean(c, "cli") {
			return conceptCli(c)
		}
		pl := concept.NewConceptAnalyser().Analysis(&clzs)
		if pl == nil {
			pl = string_helper.PairList{}
		}
		return map[string]interface{}{"pairs": pl}, nil
	case "evaluate":
		if boolean(c, "cli") {
			return evaluateCli(c)
		}
		var ids []core_domain.CodeDataStruct
		if err := json.Unmarshal(c["identifiers"], &ids); err != nil {
			return nil, err
		}
		r := evaluate.NewEvaluateAnalyser().Analysis(clzs, ids)
		items := append([]string{}, r.Nullable.Items...)
		sort.Strings(items)
		return map[string]interface{}{"UtilsCount": r.Summary.UtilsCount, "ClassCount": r.Summary.ClassCount,
			"MethodCount": r.Summary.MethodCount, "StaticMethodCount": r.Summary.StaticMethodCount, "Nullable": items,
			"full": asCollection(map[string]interface{}{"Nullable": r.Nullable, "ServiceSummary": r.ServiceSummary, "UtilsSummary": r.UtilsSummary,
				"UtilsCount": r.Summary.UtilsCount, "ClassCount": r.Summary.ClassCount, "MethodCount": r.Summary.MethodCount,
				"NormalMethodCount": r.Summary.NormalMethodCount, "TotalMethodLength": r.Summary.TotalMethodLength,
				"StaticMethodCount": r.Summary.StaticMethodCount,
				// the deviations can be NaN, which JSON cannot carry
				"MethodLengthStdDeviation": fmt.Sprintf("%v", r.Summary.MethodLengthStdDeviation),
				"MethodNumStdDeviation":    fmt.Sprintf("%v", r.Summary.MethodNumStdDeviation)})}, nil
	}
	return nil, nil
}

// the whole evaluation result (what `coca evaluate` writes to evaluate.json) as a collection: every list sorted by the
// JSON text of its elements, maps by key (C08 compares it between runs; the Lean model does not produce it)
func asCollection(v interface{}) string {
	raw, err := json.Marshal(v)
	if err != nil {
		return "marshal error: " + err.Error()
	}
	var x interface{}
	_ = json.Unmarshal(raw, &x)
	out, _ := json.Marshal(canonColl(x))
	return string(out)
}

func canonColl(x interface{}) interface{} {
	switch t := x.(type) {
	case map[string]interface{}:
		for k, v := range t {
			t[k] = canonColl(v)
		}
		return t
	case []interface{}:
		keys := make([]string, len(t))
		for i, v := range t {
			t[i] = canonColl(v)
			b, _ := json.Marshal(t[i])
			keys[i] = string(b)
		}
		sort.Strings(keys)
		outl := make([]interface{}, len(keys))
		for i, k := range keys {
			outl[i] = json.RawMessage(k)
		}
		return outl
	}
	return x
}

// countCli writes the model as deps.json and runs the real `coca count` n times (fresh process each); every run is returned
// as its table rows [count, method] in printed order
func countCli(clzs json.RawMessage, n int, top int) ([][][]string, error) {
	work, err := os.MkdirTemp("", "cvn")
	if err != nil {
		return nil, err
	}
	defer os.RemoveAll(work)
	deps := filepath.Join(work, "deps.json")
	if err := os.WriteFile(deps, clzs, 0644); err != nil {
		return nil, err
	}
	self, _ := os.Executable()
	runs := [][][]string{}
	for i := 0; i < n; i++ {
		cmd := exec.Command(self, "__cli", "count", "-d", deps, "-t", strconv.Itoa(top))
		cmd.Dir = work
		var out bytes.Buffer
		cmd.Stdout = &out
		cmd.Stderr = &out
		done := make(chan error, 1)
		if err := cmd.Start(); err != nil {
			return runs, err
		}
		go func() { done <- cmd.Wait() }()
		select {
		case err := <-done:
			if err != nil {
				return runs, fmt.Errorf("coca count: %v: %s", err, out.String())
			}
		case <-time.After(60 * time.Second):
			cmd.Process.Kill()
			return runs, fmt.Errorf("coca count: timeout")
		}
		rows := [][]string{}
		for _, line := range strings.Split(out.String(), "\n") {
			cells := strings.Split(line, "|")
			if len(cells) != 4 {
				continue
			}
			v, k := strings.TrimSpace(cells[1]), strings.TrimSpace(cells[2])
			if _, err := strconv.Atoi(v); err != nil {
				continue // header, separator
			}
			rows = append(rows, []string{v, k})
		}
		runs = append(runs, rows)
	}
	return runs, nil
}

// evaluateCli: `coca evaluate -d deps.json` with the identifiers in coca_reporter/identify.json; the summary is read back
// from coca_reporter/evaluate.json
func evaluateCli(c map[string]json.RawMessage) (interface{}, error) {
	work, err := newWork()
	if err != nil {
		return nil, err
	}
	defer os.RemoveAll(work)
	deps := filepath.Join(work, "deps.json")
	if err := os.WriteFile(deps, c["clzs"], 0644); err != nil {
		return nil, err
	}
	_ = putReport(work, "identify.json", c["identifiers"])
	stdout, err := cocaCli(work, "evaluate", "-d", deps)
	if err != nil {
		return nil, err
	}
	b, err := getReport(work, "evaluate.json")
	if err != nil {
		return nil, err
	}
	var r struct {
		Nullable struct{ Items []string }
		Summary  struct{ UtilsCount, ClassCount, MethodCount, StaticMethodCount int }
	}
	if err := json.Unmarshal(b, &r); err != nil {
		return map[string]interface{}{"reportUnreadable": fmt.Sprintf("coca_reporter/evaluate.json (%d bytes): %v", len(b), err), "stdout": stdout}, nil
	}
	items := append([]string{}, r.Nullable.Items...)
	sort.Strings(items)
	return map[string]interface{}{"UtilsCount": r.Summary.UtilsCount, "ClassCount": r.Summary.ClassCount,
		"MethodCount": r.Summary.MethodCount, "StaticMethodCount": r.Summary.StaticMethodCount, "Nullable": items}, nil
}

// evaluateSrc: the evaluation of a SOURCE tree ("files"), as a user obtains it: the identifier pass and the full pass over the
// tree, then the analyser (in process), or `coca analysis -p dir` followed by `coca evaluate -d coca_reporter/deps.json` in fresh
// processes ("cli"). The "clzs" / "identifiers" of the case are what the source says (the generator's ground truth): they
// are for the model and the oracle, the real code never sees them.
func evaluateSrc(c map[string]json.RawMessage) (interface{}, error) {
	dir, err := writeTree(c, "files")
	if dir != "" {
		defer os.RemoveAll(dir)
	}
	if err != nil {
		return nil, err
	}
	if boolean(c, "cli") {
		work, err := newWork()
		if err != nil {
			return nil, err
		}
		defer os.RemoveAll(work)
		if _, err := cocaCli(work, "analysis", "-p", dir); err != nil {
			return nil, err
		}
		stdout, err := cocaCli(work, "evaluate", "-d", filepath.Join(work, "coca_reporter", "deps.json"))
		if err != nil {
			return nil, err
		}
		b, err := getReport(work, "evaluate.json")
		if err != nil {
			return nil, err
		}
		var r struct {
			Nullable struct{ Items []string }
			Summary  struct{ UtilsCount, ClassCount, MethodCount, StaticMethodCount int }
		}
		if err := json.Unmarshal(b, &r); err != nil {
			return map[string]interface{}{"reportUnreadable": fmt.Sprintf("coca_reporter/evaluate.json (%d bytes): %v", len(b), err), "stdout": stdout}, nil
		}
		items := append([]string{}, r.Nullable.Items...)
		sort.Strings(items)
		return map[string]interface{}{"UtilsCount": r.Summary.UtilsCount, "ClassCount": r.Summary.ClassCount,
			"MethodCount": r.Summary.MethodCount, "StaticMethodCount": r.Summary.StaticMethodCount, "Nullable": items}, nil
	}
	identApp := javaapp.NewJavaIdentifierApp()
	identifiers := identApp.AnalysisPath(dir)
	fullApp := javaapp.NewJavaFullApp()
	nodes := fullApp.AnalysisPath(dir, identifiers)
	r := evaluate.NewEvaluateAnalyser().Analysis(nodes, identifiers)
	items := append([]string{}, r.Nullable.Items...)
	sort.Strings(items)
	return map[string]interface{}{"UtilsCount": r.Summary.UtilsCount, "ClassCount": r.Summary.ClassCount,
		"MethodCount": r.Summary.MethodCount, "StaticMethodCount": r.Summary.StaticMethodCount, "Nullable": items}, nil
}

// conceptCli: `coca concept -d deps.json`; the printed table (words with a positive count) is read back
func conceptCli(c map[string]json.RawMessage) (interface{}, error) {
	work, err := newWork()
	if err != nil {
		return nil, err
	}
	defer os.RemoveAll(work)
	deps := filepath.Join(work, "deps.json")
	if err := os.WriteFile(deps, c["clzs"], 0644); err != nil {
		return nil, err
	}
	stdout, err := cocaCli(work, "concept", "-d", deps)
	if err != nil {
		return nil, err
	}
	pl := string_helper.PairList{}
	for _, row := range tableRows(stdout, 2) {
		n, err := strconv.Atoi(row[1])
		if err != nil {
			continue // header
		}
		pl = append(pl, string_helper.Pair{Key: row[0], Value: n})
	}
	return map[string]interface{}{"pairs": pl}, nil
}
