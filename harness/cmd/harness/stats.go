package main

import (
	"encoding/json"
	"sort"

	"github.com/modernizing/coca/pkg/application/concept"
	"github.com/modernizing/coca/pkg/application/count"
	"github.com/modernizing/coca/pkg/application/evaluate"
	"github.com/modernizing/coca/pkg/domain/core_domain"
	"github.com/modernizing/coca/pkg/infrastructure/string_helper"
)

func init() { register("stats", statsFamily) }

func statsFamily(c map[string]json.RawMessage) (interface{}, error) {
	var clzs []core_domain.CodeDataStruct
	if err := json.Unmarshal(c["clzs"], &clzs); err != nil {
		return nil, err
	}
	switch str(c, "op") {
	case "count":
		m := count.BuildCallMap(clzs)
		pl := string_helper.SortWord(m)
		if pl == nil {
			pl = string_helper.PairList{}
		}
		return map[string]interface{}{"pairs": pl}, nil
	case "concept":
		pl := concept.NewConceptAnalyser().Analysis(&clzs)
		if pl == nil {
			pl = string_helper.PairList{}
		}
		return map[string]interface{}{"pairs": pl}, nil
	case "evaluate":
		var ids []core_domain.CodeDataStruct
		if err := json.Unmarshal(c["identifiers"], &ids); err != nil {
			return nil, err
		}
		r := evaluate.NewEvaluateAnalyser().Analysis(clzs, ids)
		items := append([]string{}, r.Nullable.Items...)
		sort.Strings(items)
		return map[string]interface{}{"UtilsCount": r.Summary.UtilsCount, "ClassCount": r.Summary.ClassCount,
			"MethodCount": r.Summary.MethodCount, "StaticMethodCount": r.Summary.StaticMethodCount, "Nullable": items}, nil
	}
	return nil, nil
}
