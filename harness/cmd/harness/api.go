package main

import (
	"encoding/json"
	"os"

	"github.com/modernizing/coca/pkg/application/api"
	"github.com/modernizing/coca/pkg/domain/core_domain"
)

func init() { register("api", apiFamily) }

func apiFamily(c map[string]json.RawMessage) (interface{}, error) {
	dir, err := writeTree(c, "files")
	if dir != "" {
		defer os.RemoveAll(dir)
	}
	if err != nil {
		return nil, err
	}
	app := new(api.JavaApiApp)
	apis := app.AnalysisPath(dir, nil, map[string]core_domain.CodeDataStruct{}, map[string]string{})
	out := []map[string]string{}
	for _, a := range apis {
		out = append(out, map[string]string{"Uri": a.Uri, "HttpMethod": a.HttpMethod, "MethodName": a.MethodName,
			"RequestBodyClass": a.RequestBodyClass, "PackageName": a.PackageName, "ClassName": a.ClassName})
	}
	return map[string]interface{}{"apis": out}, nil
}
