package main

import (
	"encoding/json"
	"os"
	"strings"

	"github.com/modernizing/coca/pkg/application/api"
	"github.com/modernizing/coca/pkg/domain/api_domain"
	"github.com/modernizing/coca/pkg/domain/core_domain"
)

func init() { register("api", apiFamily) }

func apiFamily(c map[string]json.RawMessage) (interface{}, error) {
	dir, err := writeTree(c, "files")
	if dir != "" {
		defer os.RemoveAll(dir)
	}
	if err != nil {
		return nil, err
	}
	if boolean(c, "cli") {
		// `coca analysis -p dir` then `coca api -f -p dir`: coca_reporter/apis.json
		work, err := newWork()
		if err != nil {
			return nil, err
		}
		defer os.RemoveAll(work)
		if _, err := cocaCli(work, "analysis", "-p", dir); err != nil {
			return nil, err
		}
		if _, err := cocaCli(work, "api", "-f", "-p", dir); err != nil {
			return nil, err
		}
		b, err := getReport(work, "apis.json")
		if err != nil {
			return nil, err
		}
		var apis []api_domain.RestAPI
		if err := json.Unmarshal(b, &apis); err != nil {
			return map[string]interface{}{"reportUnreadable": err.Error()}, nil
		}
		out := []map[string]string{}
		for _, a := range apis {
			out = append(out, map[string]string{"Uri": a.Uri, "HttpMethod": a.HttpMethod, "MethodName": a.MethodName,
				"RequestBodyClass": a.RequestBodyClass, "PackageName": a.PackageName, "ClassName": a.ClassName})
		}
		res := map[string]interface{}{"apis": out}
		// the report the command derives from that list: one row per handler in coca_reporter/api.csv (Size,Method,URI,Caller)
		if b, err := getReport(work, "api.csv"); err == nil {
			rows := []string{}
			for i, line := range strings.Split(strings.TrimRight(string(b), "\n"), "\n") {
				if i > 0 && strings.TrimSpace(line) != "" {
					rows = append(rows, strings.TrimSpace(line))
				}
			}
			res["csvRows"] = rows
		}
		return res, nil
	}
	app := new(api.JavaApiApp)
	apis := app.AnalysisPath(dir, nil, map[string]core_domain.CodeDataStruct{}, map[string]string{})
	out := []map[string]string{}
	for _, a := range apis {
		out = append(out, map[string]string{"Uri": a.Uri, "HttpMethod": a.HttpMethod, "MethodName": a.MethodName,
			"RequestBodyClass": a.RequestBodyClass, "PackageName": a.PackageName, "ClassName": a.ClassName})
	}
	return map[string]interface{}{"apis": out}, nil
}
