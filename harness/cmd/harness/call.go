package main

import (
	"encoding/json"

	"github.com/modernizing/coca/pkg/application/call"
	"github.com/modernizing/coca/pkg/application/rcall"
	"github.com/modernizing/coca/pkg/domain/api_domain"
	"github.com/modernizing/coca/pkg/domain/core_domain"
)

func init() { register("call", callFamily) }

func callFamily(c map[string]json.RawMessage) (interface{}, error) {
	var clzs []core_domain.CodeDataStruct
	if err := json.Unmarshal(c["clzs"], &clzs); err != nil {
		return nil, err
	}
	switch str(c, "op") {
	case "call":
		dot := call.NewCallGraph().Analysis(str(c, "root"), clzs, boolean(c, "lookup"))
		return map[string]interface{}{"dot": dot}, nil
	case "rcall":
		var m map[string][]string
		dot := rcall.NewRCallGraph().Analysis(str(c, "target"), clzs, func(rm map[string][]string) { m = rm })
		if m == nil {
			m = map[string][]string{}
		}
		return map[string]interface{}{"dot": dot, "map": m}, nil
	case "api":
		var apis []api_domain.RestAPI
		if err := json.Unmarshal(c["apis"], &apis); err != nil {
			return nil, err
		}
		var di map[string]string
		if err := json.Unmarshal(c["di"], &di); err != nil {
			return nil, err
		}
		dot, counts := call.NewCallGraph().AnalysisByFiles(apis, clzs, di)
		if counts == nil {
			counts = []api_domain.CallAPI{}
		}
		return map[string]interface{}{"dot": dot, "apis": counts}, nil
	}
	return nil, nil
}
