package main

import (
	"encoding/csv"
	"encoding/json"
	"os"
	"path/filepath"
	"strconv"
	"strings"

	"github.com/modernizing/coca/pkg/application/call"
	"github.com/modernizing/coca/pkg/application/rcall"
	"github.com/modernizing/coca/pkg/domain/api_domain"
	"github.com/modernizing/coca/pkg/domain/core_domain"
)

func init() { register("call", callFamily) }

func callFamily(c map[string]json.RawMessage) (interface{}, error) {
	var clzs []core_domain.CodeDataStruct
	if err := json.Unmarshal(c["clzs"], &clzs); err != nil {
		return nil, err
	}
	if boolean(c, "cli") {
		if r, ok, err := callCli(c); ok || err != nil {
			return r, err
		}
	}
	switch str(c, "op") {
	case "call":
		dot := call.NewCallGraph().Analysis(str(c, "root"), clzs, boolean(c, "lookup"))
		return map[string]interface{}{"dot": dot}, nil
	case "rcall":
		var m map[string][]string
		dot := rcall.NewRCallGraph().Analysis(str(c, "target"), clzs, func(rm map[string][]string) { m = rm })
		if m == nil {
			m = map[string][]string{}
		}
		return map[string]interface{}{"dot": dot, "map": m}, nil
	case "api":
		var apis []api_domain.RestAPI
		if err := json.Unmarshal(c["apis"], &apis); err != nil {
			return nil, err
		}
		var di map[string]string
		if err := json.Unmarshal(c["di"], &di); err != nil {
			return nil, err
		}
		dot, counts := call.NewCallGraph().AnalysisByFiles(apis, clzs, di)
		if counts == nil {
			counts = []api_domain.CallAPI{}
		}
		return map[string]interface{}{"dot": dot, "apis": counts}, nil
	}
	return nil, nil
}

// callCli: `coca call -c root -d deps.json [-l]`, `coca rcall -c target -d deps.json`, `coca api -d deps.json -c` (with the
// given apis.json and an empty identify.json, i.e. no dependency injection). ok=false: this case cannot be expressed on the
// command line (empty rcall target, a DI map) and runs in-process.
func callCli(c map[string]json.RawMessage) (interface{}, bool, error) {
	op := str(c, "op")
	if op == "rcall" && str(c, "target") == "" {
		return nil, false, nil
	}
	if op == "api" {
		var di map[string]string
		_ = json.Unmarshal(c["di"], &di)
		if len(di) > 0 {
			return nil, false, nil
		}
	}
	work, err := newWork()
	if err != nil {
		return nil, true, err
	}
	defer os.RemoveAll(work)
	deps := filepath.Join(work, "deps.json")
	if err := os.WriteFile(deps, c["clzs"], 0644); err != nil {
		return nil, true, err
	}
	switch op {
	case "call":
		args := []string{"call", "-c", str(c, "root"), "-d", deps}
		if boolean(c, "lookup") {
			args = append(args, "-l")
		}
		if _, err := cocaCli(work, args...); err != nil {
			return nil, true, err
		}
		dot, err := getReport(work, "call.dot")
		return map[string]interface{}{"dot": string(dot)}, true, err
	case "rcall":
		if _, err := cocaCli(work, "rcall", "-c", str(c, "target"), "-d", deps); err != nil {
			return nil, true, err
		}
		dot, err := getReport(work, "rcall.dot")
		if err != nil {
			return nil, true, err
		}
		m := map[string][]string{}
		if b, err := getReport(work, "rcallmap.json"); err == nil {
			_ = json.Unmarshal(b, &m)
		}
		return map[string]interface{}{"dot": string(dot), "map": m}, true, nil
	case "api":
		_ = putReport(work, "identify.json", []byte("[]"))
		_ = putReport(work, "apis.json", c["apis"])
		if _, err := cocaCli(work, "api", "-d", deps, "-c"); err != nil {
			return nil, true, err
		}
		dot, err := getReport(work, "api.dot")
		if err != nil {
			return nil, true, err
		}
		counts := []map[string]interface{}{}
		if b, err := getReport(work, "api.csv"); err == nil {
			r := csv.NewReader(strings.NewReader(string(b)))
			r.FieldsPerRecord = -1
			r.LazyQuotes = true
			recs, _ := r.ReadAll()
			for i, rec := range recs {
				if i == 0 || len(rec) < 4 {
					continue // header
				}
				n, _ := strconv.Atoi(strings.TrimSpace(rec[0]))
				counts = append(counts, map[string]interface{}{"Size": n, "HTTPMethod": strings.TrimSpace(rec[1]), "URI": strings.TrimSpace(rec[2]),
					"Caller": strings.TrimSpace(strings.Join(rec[3:], ","))})
			}
		}
		return map[string]interface{}{"dot": string(dot), "apis": counts}, true, nil
	}
	return nil, false, nil
}
