package main

// The CLI tier: a case with "cli": true goes through the REAL coca command (cmd/*.go) in a fresh process instead of the
// application-layer call the family makes in-process; its report files are read back into the same result shape, so that
// the same oracle and the same model comparison apply to what the user actually gets.

import (
	"bytes"
	"fmt"
	"os"
	"os/exec"
	"path/filepath"
	"strings"
	"time"
)

// cliPanic is raised when the CLI process died with a Go panic: runOne reports it like an in-process panic
type cliPanic struct {
	msg   string
	stack string
}

func (p cliPanic) String() string { return p.msg }

// cocaCli runs `coca <args>` (this binary, `__cli`) with the working directory `work`; stdout+stderr are returned
func cocaCli(work string, args ...string) (string, error) {
	return cocaCliMode("__cli", work, args...)
}

// cocaCliMode: "__cli" is the coca command, "__cli_dep" the dependency sub-command (analysis/dep)
func cocaCliMode(mode string, work string, args ...string) (string, error) {
	self, _ := os.Executable()
	cmd := exec.Command(self, append([]string{mode}, args...)...)
	cmd.Dir = work
	var out bytes.Buffer
	cmd.Stdout = &out
	cmd.Stderr = &out
	if err := cmd.Start(); err != nil {
		return "", err
	}
	done := make(chan error, 1)
	go func() { done <- cmd.Wait() }()
	select {
	case err := <-done:
		s := out.String()
		if err != nil {
			if i := strings.Index(s, "panic: "); i >= 0 {
				msg := s[i+len("panic: "):]
				if j := strings.Index(msg, "\n"); j >= 0 {
					msg = msg[:j]
				}
				panic(cliPanic{msg: "coca " + args[0] + ": " + msg, stack: s[i:]})
			}
			return s, fmt.Errorf("coca %s: %v: %s", args[0], err, tail(s, 300))
		}
		return s, nil
	case <-time.After(120 * time.Second):
		cmd.Process.Kill()
		return out.String(), fmt.Errorf("coca %s: timeout", args[0])
	}
}

func tail(s string, n int) string {
	if len(s) > n {
		return s[len(s)-n:]
	}
	return s
}

func newWork() (string, error) {
	work, err := os.MkdirTemp("", "cvw")
	if err != nil {
		return "", err
	}
	return work, os.MkdirAll(filepath.Join(work, "coca_reporter"), 0755)
}

func putReport(work, name string, content []byte) error {
	return os.WriteFile(filepath.Join(work, "coca_reporter", name), content, 0644)
}

func getReport(work, name string) ([]byte, error) {
	return os.ReadFile(filepath.Join(work, "coca_reporter", name))
}

// tableRows parses a tablewriter table with `|` borders: the header row first, then the data rows
func tableRows(text string, ncols int) [][]string {
	rows := [][]string{}
	for _, line := range strings.Split(text, "\n") {
		if !strings.HasPrefix(line, "|") {
			continue
		}
		cells := strings.Split(line, "|")
		if len(cells) != ncols+2 {
			continue
		}
		row := make([]string, ncols)
		sep := true
		for i := range row {
			row[i] = strings.TrimSpace(cells[i+1])
			if strings.Trim(row[i], "-") != "" {
				sep = false
			}
		}
		if sep && strings.HasPrefix(line, "|-") {
			continue // the line under the header
		}
		rows = append(rows, row)
	}
	return rows
}
