package main

import (
	"encoding/json"
	"os"
	"path/filepath"
	"sort"
	"strings"

	"github.com/awalterschulze/gographviz"
	"github.com/modernizing/coca/pkg/application/arch"
	"github.com/modernizing/coca/pkg/application/arch/tequila"
	"github.com/modernizing/coca/pkg/domain/core_domain"
)

func init() { register("arch", archFamily) }

func unq(s string) string { return strings.Trim(s, "\"") }

func archFamily(c map[string]json.RawMessage) (interface{}, error) {
	var clzs []core_domain.CodeDataStruct
	if err := json.Unmarshal(c["clzs"], &clzs); err != nil {
		return nil, err
	}
	var identKeys, filters []string
	_ = json.Unmarshal(c["identKeys"], &identKeys)
	_ = json.Unmarshal(c["filters"], &filters)
	identMap := map[string]core_domain.CodeDataStruct{}
	for _, k := range identKeys {
		identMap[k] = core_domain.CodeDataStruct{}
	}
	if boolean(c, "cli") {
		if r, ok, err := archCli(c, identKeys, filters); ok || err != nil {
			return r, err
		}
	}
	result := arch.NewArchApp().Analysis(clzs, identMap)
	if boolean(c, "mergeHeader") {
		result = result.MergeHeaderFile(tequila.MergeHeaderFunc)
	}
	if boolean(c, "mergePackage") {
		result = result.MergeHeaderFile(tequila.MergePackageFunc)
	}
	// the -x filter of cmd/arch.go
	nodeFilter := func(key string) bool {
		for _, f := range filters {
			if strings.Contains(key, f) {
				return true
			}
		}
		return false
	}
	graph := result.ToMapDot(nodeFilter)
	// re-parse the emitted DOT text with the library's own parser (well-formedness) and read it back
	text := graph.String()
	parsedAst, err := gographviz.ParseString(text)
	if err != nil {
		return map[string]interface{}{"dotError": err.Error()}, nil
	}
	reparsed := gographviz.NewGraph()
	if err := gographviz.Analyse(parsedAst, reparsed); err != nil {
		return map[string]interface{}{"dotError": err.Error()}, nil
	}
	if len(reparsed.Nodes.Nodes) != len(graph.Nodes.Nodes) || len(reparsed.Edges.Edges) != len(graph.Edges.Edges) {
		return map[string]interface{}{"dotError": "re-parsed DOT has a different number of nodes/edges"}, nil
	}
	nodes, edges := readLayout(graph)
	allNodes := []string{}
	for k := range result.NodeList {
		allNodes = append(allNodes, k)
	}
	allRels := []string{}
	for _, r := range result.RelationList {
		allRels = append(allRels, r.From+" -> "+r.To)
	}
	sort.Strings(allNodes)
	sort.Strings(allRels)
	return map[string]interface{}{"nodes": nodes, "edges": edges, "allNodes": allNodes, "allRels": allRels}, nil
}

// readLayout reads a laid-out graph back as label paths: every node as the dotted path of its cluster labels and its own
// label, every edge as "path -> path" (both sorted)
func readLayout(g *gographviz.Graph) ([]string, []string) {
	label := func(name string) string {
		if sg, ok := g.SubGraphs.SubGraphs[name]; ok {
			return unq(sg.Attrs["label"])
		}
		return ""
	}
	pathOf := func(node string) string {
		n := g.Nodes.Lookup[node]
		parts := []string{unq(n.Attrs["label"])}
		cur := node
		for {
			parents := g.Relations.ChildToParents[cur]
			if len(parents) == 0 {
				break
			}
			// in a graph read back from DOT text a node that an edge mentions before its declaration is a child of the
			// root graph AND of its cluster: the cluster is where it is drawn
			p := ""
			for k := range parents {
				if k != "G" && (p == "" || k < p) {
					p = k
				}
			}
			if p == "" {
				break
			}
			parts = append([]string{label(p)}, parts...)
			cur = p
		}
		return strings.Join(parts, ".")
	}
	nodes := []string{}
	idToPath := map[string]string{}
	for _, n := range g.Nodes.Nodes {
		p := pathOf(n.Name)
		idToPath[n.Name] = p
		nodes = append(nodes, p)
	}
	edges := []string{}
	for _, e := range g.Edges.Edges {
		edges = append(edges, idToPath[e.Src]+" -> "+idToPath[e.Dst])
	}
	sort.Strings(nodes)
	sort.Strings(edges)
	return nodes, edges
}

// archCli: `coca arch -d deps.json [-H] [-P] [-x filters]` with the identifiers in coca_reporter/identify.json; the drawn
// graph is read back from coca_reporter/arch.dot. ok=false: an identifier key without a dot cannot be written as
// (Package, NodeName).
func archCli(c map[string]json.RawMessage, identKeys, filters []string) (interface{}, bool, error) {
	idents := []map[string]string{}
	for _, k := range identKeys {
		i := strings.LastIndex(k, ".")
		if i < 0 {
			return nil, false, nil
		}
		idents = append(idents, map[string]string{"Package": k[:i], "NodeName": k[i+1:]})
	}
	for _, f := range filters {
		if strings.Contains(f, ",") {
			return nil, false, nil
		}
	}
	work, err := newWork()
	if err != nil {
		return nil, true, err
	}
	defer os.RemoveAll(work)
	deps := filepath.Join(work, "deps.json")
	if err := os.WriteFile(deps, c["clzs"], 0644); err != nil {
		return nil, true, err
	}
	ib, _ := json.Marshal(idents)
	_ = putReport(work, "identify.json", ib)
	args := []string{"arch", "-d", deps, "-x", strings.Join(filters, ",")}
	if boolean(c, "mergeHeader") {
		args = append(args, "-H")
	}
	if boolean(c, "mergePackage") {
		args = append(args, "-P")
	}
	if _, err := cocaCli(work, args...); err != nil {
		return nil, true, err
	}
	b, err := getReport(work, "arch.dot")
	if err != nil {
		return nil, true, err
	}
	parsedAst, err := gographviz.ParseString(string(b))
	if err != nil {
		return map[string]interface{}{"dotError": err.Error()}, true, nil
	}
	g := gographviz.NewGraph()
	if err := gographviz.Analyse(parsedAst, g); err != nil {
		return map[string]interface{}{"dotError": err.Error()}, true, nil
	}
	nodes, edges := readLayout(g)
	return map[string]interface{}{"nodes": nodes, "edges": edges}, true, nil
}
