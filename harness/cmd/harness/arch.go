package main

import (
	"encoding/json"
	"sort"
	"strings"

	"github.com/awalterschulze/gographviz"
	"github.com/modernizing/coca/pkg/application/arch"
	"github.com/modernizing/coca/pkg/application/arch/tequila"
	"github.com/modernizing/coca/pkg/domain/core_domain"
)

func init() { register("arch", archFamily) }

func unq(s string) string { return strings.Trim(s, "\"") }

func archFamily(c map[string]json.RawMessage) (interface{}, error) {
	var clzs []core_domain.CodeDataStruct
	if err := json.Unmarshal(c["clzs"], &clzs); err != nil {
		return nil, err
	}
	var identKeys, filters []string
	_ = json.Unmarshal(c["identKeys"], &identKeys)
	_ = json.Unmarshal(c["filters"], &filters)
	identMap := map[string]core_domain.CodeDataStruct{}
	for _, k := range identKeys {
		identMap[k] = core_domain.CodeDataStruct{}
	}
	result := arch.NewArchApp().Analysis(clzs, identMap)
	if boolean(c, "mergeHeader") {
		result = result.MergeHeaderFile(tequila.MergeHeaderFunc)
	}
	if boolean(c, "mergePackage") {
		result = result.MergeHeaderFile(tequila.MergePackageFunc)
	}
	// the -x filter of cmd/arch.go
	nodeFilter := func(key string) bool {
		for _, f := range filters {
			if strings.Contains(key, f) {
				return true
			}
		}
		return false
	}
	graph := result.ToMapDot(nodeFilter)
	// re-parse the emitted DOT text with the library's own parser (well-formedness) and read it back
	text := graph.String()
	parsedAst, err := gographviz.ParseString(text)
	if err != nil {
		return map[string]interface{}{"dotError": err.Error()}, nil
	}
	reparsed := gographviz.NewGraph()
	if err := gographviz.Analyse(parsedAst, reparsed); err != nil {
		return map[string]interface{}{"dotError": err.Error()}, nil
	}
	if len(reparsed.Nodes.Nodes) != len(graph.Nodes.Nodes) || len(reparsed.Edges.Edges) != len(graph.Edges.Edges) {
		return map[string]interface{}{"dotError": "re-parsed DOT has a different number of nodes/edges"}, nil
	}
	g := graph
	label := func(name string) string {
		if sg, ok := g.SubGraphs.SubGraphs[name]; ok {
			return unq(sg.Attrs["label"])
		}
		return ""
	}
	pathOf := func(node string) string {
		n := g.Nodes.Lookup[node]
		parts := []string{unq(n.Attrs["label"])}
		cur := node
		for {
			parents := g.Relations.ChildToParents[cur]
			if len(parents) == 0 {
				break
			}
			var p string
			for k := range parents {
				p = k
			}
			if p == "G" || p == "" {
				break
			}
			parts = append([]string{label(p)}, parts...)
			cur = p
		}
		return strings.Join(parts, ".")
	}
	nodes := []string{}
	idToPath := map[string]string{}
	for _, n := range g.Nodes.Nodes {
		p := pathOf(n.Name)
		idToPath[n.Name] = p
		nodes = append(nodes, p)
	}
	edges := []string{}
	for _, e := range g.Edges.Edges {
		edges = append(edges, idToPath[e.Src]+" -> "+idToPath[e.Dst])
	}
	sort.Strings(nodes)
	sort.Strings(edges)
	allNodes := []string{}
	for k := range result.NodeList {
		allNodes = append(allNodes, k)
	}
	allRels := []string{}
	for _, r := range result.RelationList {
		allRels = append(allRels, r.From+" -> "+r.To)
	}
	sort.Strings(allNodes)
	sort.Strings(allRels)
	return map[string]interface{}{"nodes": nodes, "edges": edges, "allNodes": allNodes, "allRels": allRels}, nil
}
