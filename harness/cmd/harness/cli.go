package main

import (
	"fmt"
	"os"

	"github.com/modernizing/coca/cmd"
)

func runCli(args []string) {
	root := cmd.NewRootCmd(os.Stdout)
	root.SetArgs(args)
	if err := root.Execute(); err != nil {
		fmt.Fprintln(os.Stderr, err)
		os.Exit(1)
	}
}
