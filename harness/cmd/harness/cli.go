package main

import (
	"fmt"
	"os"

	depapp "github.com/modernizing/coca/analysis/dep/app"
	"github.com/modernizing/coca/cmd"
)

func runCli(args []string) {
	root := cmd.NewRootCmd(os.Stdout)
	root.SetArgs(args)
	if err := root.Execute(); err != nil {
		fmt.Fprintln(os.Stderr, err)
		os.Exit(1)
	}
}

// the dependency sub-command (analysis/dep): `harness __cli_dep deps -p dir`
func runDepCli(args []string) {
	root := depapp.NewRootCmd(os.Stdout)
	root.SetArgs(args)
	if err := root.Execute(); err != nil {
		fmt.Fprintln(os.Stderr, err)
		os.Exit(1)
	}
}
