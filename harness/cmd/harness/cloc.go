package main

import (
	"bytes"
	"encoding/csv"
	"encoding/json"
	"fmt"
	"os"
	"os/exec"
	"path/filepath"
	"strconv"
	"strings"
	"time"
)

func init() { register("cloc", clocFamily) }

func clocFamily(c map[string]json.RawMessage) (interface{}, error) {
	work, err := os.MkdirTemp("", "cvc")
	if err != nil {
		return nil, err
	}
	defer os.RemoveAll(work)
	var files map[string]string
	if err := json.Unmarshal(c["files"], &files); err != nil {
		return nil, err
	}
	var dirs []string
	_ = json.Unmarshal(c["dirs"], &dirs)
	tree := filepath.Join(work, "tree")
	os.MkdirAll(tree, 0755)
	for _, d := range dirs {
		os.MkdirAll(filepath.Join(tree, d), 0755)
	}
	for rel, content := range files {
		p := filepath.Join(tree, rel)
		os.MkdirAll(filepath.Dir(p), 0755)
		if err := os.WriteFile(p, []byte(content), 0644); err != nil {
			return nil, err
		}
	}
	self, _ := os.Executable()
	var extra []string
	_ = json.Unmarshal(c["args"], &extra)
	run := func(args ...string) (string, error) {
		cmd := exec.Command(self, append([]string{"__cli", "cloc", "tree"}, args...)...)
		cmd.Dir = work
		var out bytes.Buffer
		cmd.Stdout = &out
		cmd.Stderr = &out
		done := make(chan error, 1)
		if err := cmd.Start(); err != nil {
			return "", err
		}
		go func() { done <- cmd.Wait() }()
		select {
		case err := <-done:
			return out.String(), err
		case <-time.After(60 * time.Second):
			cmd.Process.Kill()
			return out.String(), fmt.Errorf("timeout")
		}
	}
	switch str(c, "op") {
	case "bydir":
		out, err := run(append([]string{"--by-directory"}, extra...)...)
		if err != nil {
			return map[string]interface{}{"cliError": err.Error(), "stdout": out}, nil
		}
		f, err := os.Open(filepath.Join(work, "coca_reporter", "cloc.csv"))
		if err != nil {
			return map[string]interface{}{"cliError": err.Error(), "stdout": out}, nil
		}
		defer f.Close()
		recs, err := csv.NewReader(f).ReadAll()
		if err != nil || len(recs) == 0 {
			return map[string]interface{}{"cliError": "bad csv", "stdout": out}, nil
		}
		header := recs[0]
		rows := map[string]map[string]int{}
		summary := map[string]int{}
		dup := false
		for _, r := range recs[1:] {
			if _, ok := rows[r[0]]; ok {
				dup = true
			}
			rows[r[0]] = map[string]int{}
			summary[r[0]], _ = strconv.Atoi(r[1])
			for i := 2; i < len(r) && i < len(header); i++ {
				rows[r[0]][header[i]], _ = strconv.Atoi(r[i])
			}
		}
		return map[string]interface{}{"header": header, "rows": rows, "summary": summary, "duplicateRow": dup}, nil
	case "topfile":
		out, err := run(append([]string{"--top-file"}, extra...)...)
		if err != nil {
			return map[string]interface{}{"cliError": err.Error(), "stdout": out}, nil
		}
		b, err := os.ReadFile(filepath.Join(work, "coca_reporter", "sort_cloc.json"))
		if err != nil {
			return map[string]interface{}{"cliError": err.Error(), "stdout": out}, nil
		}
		var langs []struct {
			Name  string
			Files []struct {
				Location string
				Code     int64
			}
		}
		if err := json.Unmarshal(b, &langs); err != nil {
			return map[string]interface{}{"cliError": err.Error()}, nil
		}
		res := map[string][]map[string]interface{}{}
		for _, l := range langs {
			fs := []map[string]interface{}{}
			for _, f := range l.Files {
				fs = append(fs, map[string]interface{}{"Location": strings.TrimPrefix(f.Location, "tree/"), "Code": f.Code})
			}
			res[l.Name] = fs
		}
		// the printed tables (only when <= 5 languages): per language the rows "code | complexity | location"
		tables := map[string][][]string{}
		cur := ""
		for _, line := range strings.Split(out, "\n") {
			if strings.HasPrefix(line, "Language: ") {
				cur = strings.TrimPrefix(line, "Language: ")
				tables[cur] = [][]string{}
				continue
			}
			if cur != "" && strings.HasPrefix(line, "|") && !strings.Contains(line, "LENGTH") && !strings.Contains(line, "---") {
				cells := strings.Split(strings.Trim(line, "|"), "|")
				if len(cells) == 3 {
					tables[cur] = append(tables[cur], []string{strings.TrimSpace(cells[0]), strings.TrimSpace(cells[2])})
				}
			}
		}
		return map[string]interface{}{"sorted": res, "tables": tables}, nil
	}
	return nil, nil
}
