package main

import (
	"encoding/json"
	"os"
	"path/filepath"
	"strings"

	"github.com/modernizing/coca/pkg/application/todo"
)

func init() { register("todo", todoFamily) }

type fileEnt struct {
	Path    string `json:"path"`
	Content string `json:"content"`
}

func todoFamily(c map[string]json.RawMessage) (interface{}, error) {
	var files []fileEnt
	if err := json.Unmarshal(c["files"], &files); err != nil {
		return nil, err
	}
	var filters []string
	if err := json.Unmarshal(c["filters"], &filters); err != nil {
		return nil, err
	}
	dir, err := os.MkdirTemp("", "cvt")
	if err != nil {
		return nil, err
	}
	defer os.RemoveAll(dir)
	for _, f := range files {
		p := filepath.Join(dir, f.Path)
		os.MkdirAll(filepath.Dir(p), 0755)
		if err := os.WriteFile(p, []byte(f.Content), 0644); err != nil {
			return nil, err
		}
	}
	todos := todo.NewTodoApp().AnalysisPath(dir, filters)
	out := []map[string]interface{}{}
	for _, t := range todos {
		out = append(out, map[string]interface{}{"Assignee": t.Assignee, "Filename": strings.TrimPrefix(t.Filename, dir+string(os.PathSeparator)),
			"Line": t.Line, "Message": t.Message})
	}
	return map[string]interface{}{"todos": out}, nil
}
