package main

import (
	"encoding/json"
	"os"
	"path/filepath"
	"strings"

	"github.com/modernizing/coca/pkg/application/todo"
)

func init() { register("todo", todoFamily) }

type fileEnt struct {
	Path    string `json:"path"`
	Content string `json:"content"`
}

func todoFamily(c map[string]json.RawMessage) (interface{}, error) {
	var files []fileEnt
	if err := json.Unmarshal(c["files"], &files); err != nil {
		return nil, err
	}
	var filters []string
	if err := json.Unmarshal(c["filters"], &filters); err != nil {
		return nil, err
	}
	dir, err := os.MkdirTemp("", "cvt")
	if err != nil {
		return nil, err
	}
	defer os.RemoveAll(dir)
	for _, f := range files {
		p := filepath.Join(dir, f.Path)
		os.MkdirAll(filepath.Dir(p), 0755)
		if err := os.WriteFile(p, []byte(f.Content), 0644); err != nil {
			return nil, err
		}
	}
	if boolean(c, "cli") {
		// `coca todo -p dir -e exts`: coca_reporter/simple-todos.json
		work, err := newWork()
		if err != nil {
			return nil, err
		}
		defer os.RemoveAll(work)
		if boolean(c, "relroot") {
			// run from inside the tree with the relative root `.` (the command's default): the report lands in the tree
			work = dir
			if _, err := cocaCli(dir, "todo", "-p", ".", "-e", strings.Join(filters, ",")); err != nil {
				return nil, err
			}
		} else if _, err := cocaCli(work, "todo", "-p", dir, "-e", strings.Join(filters, ",")); err != nil {
			return nil, err
		}
		b, err := getReport(work, "simple-todos.json")
		if err != nil {
			return nil, err
		}
		var ts []struct {
			Assignee string
			Filename string
			Line     int
			Message  string
		}
		if err := json.Unmarshal(b, &ts); err != nil {
			return map[string]interface{}{"reportUnreadable": err.Error()}, nil
		}
		out := []map[string]interface{}{}
		for _, t := range ts {
			out = append(out, map[string]interface{}{"Assignee": t.Assignee, "Filename": strings.TrimPrefix(t.Filename, dir+string(os.PathSeparator)),
				"Line": t.Line, "Message": t.Message})
		}
		return map[string]interface{}{"todos": out}, nil
	}
	todos := todo.NewTodoApp().AnalysisPath(dir, filters)
	out := []map[string]interface{}{}
	for _, t := range todos {
		out = append(out, map[string]interface{}{"Assignee": t.Assignee, "Filename": strings.TrimPrefix(t.Filename, dir+string(os.PathSeparator)),
			"Line": t.Line, "Message": t.Message})
	}
	return map[string]interface{}{"todos": out}, nil
}
