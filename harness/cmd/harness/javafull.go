package main

import (
	"encoding/json"
	"fmt"
	"os"
	"path/filepath"
	"sort"
	"strings"

	"github.com/modernizing/coca/pkg/application/analysis/javaapp"
	"github.com/modernizing/coca/pkg/application/api"
	"github.com/modernizing/coca/pkg/application/bs"
	"github.com/modernizing/coca/pkg/application/call"
	"github.com/modernizing/coca/pkg/application/rcall"
	"github.com/modernizing/coca/pkg/domain/core_domain"
)

func init() { register("javafull", javaFullFamily) }

func posJ(p core_domain.CodePosition) map[string]int {
	return map[string]int{"StartLine": p.StartLine, "StartLinePosition": p.StartLinePosition, "StopLine": p.StopLine, "StopLinePosition": p.StopLinePosition}
}

func annosJ(as []core_domain.CodeAnnotation) []interface{} {
	out := []interface{}{}
	for _, a := range as {
		kvs := []interface{}{}
		for _, kv := range a.KeyValues {
			kvs = append(kvs, map[string]string{"Key": kv.Key, "Value": kv.Value})
		}
		out = append(out, map[string]interface{}{"Name": a.Name, "KeyValues": kvs})
	}
	return out
}

func callsJ(cs []core_domain.CodeCall) []interface{} {
	out := []interface{}{}
	for _, c := range cs {
		ps := []string{}
		for _, p := range c.Parameters {
			ps = append(ps, p.TypeValue)
		}
		out = append(out, map[string]interface{}{"Package": c.Package, "Type": c.Type, "NodeName": c.NodeName, "FunctionName": c.FunctionName,
			"Parameters": ps, "Position": posJ(c.Position)})
	}
	return out
}

func nodesJ(nodes []core_domain.CodeDataStruct, strip string) []interface{} {
	out := []interface{}{}
	for _, d := range nodes {
		fs := []string{}
		fmap := map[string]interface{}{}
		for _, f := range d.Functions {
			ps := []interface{}{}
			for _, p := range f.Parameters {
				ps = append(ps, []string{p.TypeType, p.TypeValue})
			}
			fj := map[string]interface{}{"Name": f.Name, "ReturnType": f.ReturnType, "Parameters": ps, "FunctionCalls": callsJ(f.FunctionCalls),
				"Annotations": annosJ(f.Annotations), "Override": f.Override, "IsConstructor": f.IsConstructor, "Position": posJ(f.Position),
				"Modifiers": append([]string{}, f.Modifiers...), "IsReturnNull": f.IsReturnNull}
			if len(f.InnerStructures) > 0 {
				fj["Inner"] = innerJ(f)
			}
			b, _ := json.Marshal(fj)
			fs = append(fs, string(b))
			fmap[string(b)] = fj
		}
		sort.Strings(fs)
		fns := []interface{}{}
		for _, k := range fs {
			fns = append(fns, fmap[k])
		}
		fields := []interface{}{}
		for _, f := range d.Fields {
			fields = append(fields, []string{f.TypeType, f.TypeValue})
		}
		imps := []string{}
		for _, i := range d.Imports {
			imps = append(imps, i.Source)
		}
		impls := d.Implements
		if impls == nil {
			impls = []string{}
		}
		out = append(out, map[string]interface{}{"NodeName": d.NodeName, "Type": d.Type, "Package": d.Package,
			"FilePath": strings.TrimPrefix(d.FilePath, strip), "Fields": fields, "Extend": d.Extend, "Implements": impls, "Functions": fns,
			"Annotations": annosJ(d.Annotations), "FunctionCalls": callsJ(d.FunctionCalls), "Imports": imps})
	}
	return out
}

// C07: several runs (orders, subsets, repetitions) over one tree in this one process, the identifier set held fixed
func javaFullMulti(c map[string]json.RawMessage, dir string) (interface{}, error) {
	identApp := javaapp.NewJavaIdentifierApp()
	identifiers := identApp.AnalysisPath(dir)
	// an identifier set that lags behind the tree ("identSkip": full names of types it does not know), held fixed over all runs
	var skip []string
	_ = json.Unmarshal(c["identSkip"], &skip)
	if len(skip) > 0 {
		kept := identifiers[:0:0]
		for _, id := range identifiers {
			drop := false
			for _, sk := range skip {
				if id.Package+"."+id.NodeName == sk { // (the identifier pass records no file path: by full name)
					drop = true
				}
			}
			if !drop {
				kept = append(kept, id)
			}
		}
		identifiers = kept
	}
	var runs [][]string
	if err := json.Unmarshal(c["runs"], &runs); err != nil {
		return nil, err
	}
	strip := dir + string(os.PathSeparator)
	out := []interface{}{}
	for _, run := range runs {
		files := []string{}
		for _, o := range run {
			files = append(files, filepath.Join(dir, o))
		}
		ia := javaapp.NewJavaIdentifierApp()
		idents := ia.AnalysisFiles(files)
		fullApp := javaapp.NewJavaFullApp()
		nodes := fullApp.AnalysisFiles(identifiers, files)
		r := map[string]interface{}{"nodes": nodesJ(nodes, strip), "identifiers": nodesJ(idents, strip), "bs": bsRun(dir, run), "api": apiRun(dir, run)}
		// C07: a call graph and a reverse call graph, each generated twice in a row in this process
		for _, n := range nodes {
			if len(n.Functions) > 0 {
				root := n.Package + "." + n.NodeName + "." + n.Functions[0].Name
				d1 := call.NewCallGraph().Analysis(root, nodes, false)
				d2 := call.NewCallGraph().Analysis(root, nodes, false)
				// with the reverse part (`coca call -l`) too
				l1 := call.NewCallGraph().Analysis(root, nodes, true)
				l2 := call.NewCallGraph().Analysis(root, nodes, true)
				r["callTwice"] = d1 == d2 && l1 == l2
				r1 := rcall.NewRCallGraph().Analysis(root, nodes, func(map[string][]string) {})
				r2 := rcall.NewRCallGraph().Analysis(root, nodes, func(map[string][]string) {})
				r["rcallTwice"] = r1 == r2
				break
			}
		}
		out = append(out, r)
	}
	idk := []string{}
	for _, i := range identifiers {
		idk = append(idk, i.Package+"."+i.NodeName)
	}
	return map[string]interface{}{"runs": out, "identKeys": idk}, nil
}

// a case marked "unmodelled" (sources with constructs outside the Lean model, e.g. anonymous classes) is judged by the
// statement-level oracle only: the flag is echoed so that the runner compares nothing else with the model
func javaFullFamily(c map[string]json.RawMessage) (interface{}, error) {
	res, err := javaFullFamily0(c)
	if m, ok := res.(map[string]interface{}); ok && err == nil && boolean(c, "unmodelled") {
		m["unmodelled"] = true
	}
	return res, err
}

// the types declared inside a function (anonymous classes): name, kind and the signatures of their methods
func innerJ(f core_domain.CodeFunction) []interface{} {
	out := []interface{}{}
	for _, in := range f.InnerStructures {
		fs := []string{}
		for _, g := range in.Functions {
			fs = append(fs, g.ReturnType+" "+g.Name)
		}
		sort.Strings(fs)
		out = append(out, map[string]interface{}{"NodeName": in.NodeName, "Type": in.Type, "Functions": fs})
	}
	return out
}

func javaFullFamily0(c map[string]json.RawMessage) (interface{}, error) {
	dir, err := writeTree(c, "files")
	if dir != "" {
		defer os.RemoveAll(dir)
	}
	if err != nil {
		return nil, err
	}
	var op string
	_ = json.Unmarshal(c["op"], &op)
	if op == "fullmulti" {
		return javaFullMulti(c, dir)
	}
	if boolean(c, "cli") && len(c["order"]) == 0 {
		// `coca analysis -p dir` in a fresh process: coca_reporter/identify.json and deps.json
		work, err := newWork()
		if err != nil {
			return nil, err
		}
		defer os.RemoveAll(work)
		if _, err := cocaCli(work, "analysis", "-p", dir); err != nil {
			return nil, err
		}
		var nodes, identifiers []core_domain.CodeDataStruct
		b, err := getReport(work, "deps.json")
		if err != nil {
			return nil, err
		}
		if err := json.Unmarshal(b, &nodes); err != nil {
			return map[string]interface{}{"reportUnreadable": "deps.json: " + err.Error()}, nil
		}
		b, err = getReport(work, "identify.json")
		if err != nil {
			return nil, err
		}
		if err := json.Unmarshal(b, &identifiers); err != nil {
			return map[string]interface{}{"reportUnreadable": "identify.json: " + err.Error()}, nil
		}
		idk := []string{}
		for _, i := range identifiers {
			idk = append(idk, i.Package+"."+i.NodeName)
		}
		res := map[string]interface{}{"nodes": nodesJ(nodes, dir+string(os.PathSeparator)), "identKeys": idk, "identifiers": nodesJ(identifiers, dir+string(os.PathSeparator))}
		// ... and the reference counts `coca count` derives from that deps.json (compared between runs by C08: the order of the
		// functions inside a type is not specified, the counts are)
		if stdout, err := cocaCli(work, "count", "-d", filepath.Join(work, "coca_reporter", "deps.json"), "-t", "0"); err == nil {
			rows := [][]string{}
			for i, row := range tableRows(stdout, 2) {
				if i > 0 {
					rows = append(rows, row)
				}
			}
			res["countRows"] = rows
		}
		return res, nil
	}
	// the pipeline of `coca analysis`: identifier pass over the tree, then the full pass
	identApp := javaapp.NewJavaIdentifierApp()
	identifiers := identApp.AnalysisPath(dir)
	var order []string
	_ = json.Unmarshal(c["order"], &order)
	fullApp := javaapp.NewJavaFullApp()
	var nodes []core_domain.CodeDataStruct
	if len(order) > 0 {
		files := []string{}
		for _, o := range order {
			files = append(files, filepath.Join(dir, o))
		}
		nodes = fullApp.AnalysisFiles(identifiers, files)
	} else {
		nodes = fullApp.AnalysisPath(dir, identifiers)
	}
	idk := []string{}
	for _, i := range identifiers {
		idk = append(idk, i.Package+"."+i.NodeName)
	}
	return map[string]interface{}{"nodes": nodesJ(nodes, dir+string(os.PathSeparator)), "identKeys": idk, "identifiers": nodesJ(identifiers, dir+string(os.PathSeparator))}, nil
}

// C07, bad-smell pass: the files of one run, in that order (the app walks a directory lexically: o000/, o001/, ...), through the
// real BadSmellApp; result per run position: the entry the pass produced for that file (its node, without the path) and the
// findings that name the file.  (graphConnectedCall names no file: it is a finding about the project, and its third-party
// implementation accumulates in a package variable; it is not compared.)
type bsEntry struct {
	Node     json.RawMessage
	Findings []finding
}

func bsRun(dir string, run []string) []bsEntry {
	tmp, err := os.MkdirTemp("", "cvbs")
	if err != nil {
		return nil
	}
	defer os.RemoveAll(tmp)
	paths := []string{}
	for i, rel := range run {
		data, err := os.ReadFile(filepath.Join(dir, rel))
		if err != nil {
			return nil
		}
		p := filepath.Join(tmp, fmt.Sprintf("o%03d", i), filepath.Base(rel))
		_ = os.MkdirAll(filepath.Dir(p), 0755)
		_ = os.WriteFile(p, data, 0644)
		paths = append(paths, p)
	}
	app := bs.NewBadSmellApp()
	nodes := app.AnalysisPath(tmp)
	list := app.IdentifyBadSmell(nodes, nil)
	out := make([]bsEntry, len(run))
	for i, p := range paths {
		out[i] = bsEntry{Node: json.RawMessage("null"), Findings: []finding{}}
		for _, n := range *nodes {
			if n.FilePath == p {
				n.FilePath = ""
				if raw, err := json.Marshal(n); err == nil {
					out[i].Node = raw
				}
			}
		}
		for _, m := range list {
			if m.File == p {
				out[i].Findings = append(out[i].Findings, finding{"", m.Line, m.Bs, "", m.Size})
			}
		}
	}
	return out
}

// C07, API scan: the files of one run in that order through the real JavaApiApp; the entries per run position.
// An entry does not name its file: it is attributed by package + class, which the generated projects keep unique per file.
func apiRun(dir string, run []string) [][]map[string]string {
	tmp, err := os.MkdirTemp("", "cvapi")
	if err != nil {
		return nil
	}
	defer os.RemoveAll(tmp)
	keys := make([]string, len(run))
	for i, rel := range run {
		data, err := os.ReadFile(filepath.Join(dir, rel))
		if err != nil {
			return nil
		}
		p := filepath.Join(tmp, fmt.Sprintf("o%03d", i), filepath.Base(rel))
		_ = os.MkdirAll(filepath.Dir(p), 0755)
		_ = os.WriteFile(p, data, 0644)
		keys[i] = classKeyOf(string(data))
	}
	app := new(api.JavaApiApp)
	apis := app.AnalysisPath(tmp, nil, map[string]core_domain.CodeDataStruct{}, map[string]string{})
	out := make([][]map[string]string, len(run))
	for i := range run {
		out[i] = []map[string]string{}
	}
	// a file that is in the run twice produces its entries twice, in run order
	per := map[string][]map[string]string{}
	for _, a := range apis {
		k := a.PackageName + "." + a.ClassName
		per[k] = append(per[k], map[string]string{"Uri": a.Uri, "HttpMethod": a.HttpMethod, "MethodName": a.MethodName,
			"RequestBodyClass": a.RequestBodyClass, "PackageName": a.PackageName, "ClassName": a.ClassName})
	}
	count := map[string]int{}
	for _, k := range keys {
		count[k]++
	}
	seen := map[string]int{}
	for i, k := range keys {
		all := per[k]
		n := count[k]
		if n == 0 || len(all)%n != 0 {
			out[i] = all
			continue
		}
		sz := len(all) / n
		out[i] = all[seen[k]*sz : (seen[k]+1)*sz]
		seen[k]++
	}
	return out
}

// "package p.q;" ... "class|interface Name": the key an API entry carries for its file
func classKeyOf(src string) string {
	pkg, name := "", ""
	for _, line := range strings.Split(src, "\n") {
		t := strings.TrimSpace(line)
		if strings.HasPrefix(t, "package ") && pkg == "" {
			pkg = strings.TrimSuffix(strings.TrimPrefix(t, "package "), ";")
		}
		for _, kw := range []string{"class ", "interface "} {
			if i := strings.Index(t, kw); i >= 0 && name == "" && !strings.HasPrefix(t, "//") && !strings.HasPrefix(t, "*") && !strings.HasPrefix(t, "import") {
				rest := t[i+len(kw):]
				end := strings.IndexAny(rest, " <{")
				if end < 0 {
					end = len(rest)
				}
				name = rest[:end]
			}
		}
	}
	return strings.TrimSpace(pkg) + "." + name
}
