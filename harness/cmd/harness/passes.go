package main

import (
	"encoding/json"
	"fmt"
	"os"
	"path/filepath"
	"runtime/debug"
	"strings"

	"github.com/antlr/antlr4/runtime/Go/antlr/v4"
	parser "github.com/modernizing/coca/languages/java"
	"github.com/modernizing/coca/pkg/adapter/cocafile"
	"github.com/modernizing/coca/pkg/application/analysis/javaapp"
	"github.com/modernizing/coca/pkg/application/api"
	"github.com/modernizing/coca/pkg/application/bs"
	unusedapp "github.com/modernizing/coca/pkg/application/refactor/unused"
	"github.com/modernizing/coca/pkg/application/todo"
	"github.com/modernizing/coca/pkg/domain/core_domain"
)

func init() { register("passes", passesFamily) }

type errCounter struct {
	*antlr.DefaultErrorListener
	n     int
	first string
}

func (e *errCounter) SyntaxError(recognizer antlr.Recognizer, offendingSymbol interface{}, line, column int, msg string, ex antlr.RecognitionException) {
	if e.n == 0 {
		e.first = fmt.Sprintf("%d:%d %s", line, column, msg)
	}
	e.n++
}

// does the tool's own lexer + parser accept the file without any syntax error?
func accepts(path string) (bool, string) {
	is, err := antlr.NewFileStream(path)
	if err != nil {
		return false, err.Error()
	}
	ec := &errCounter{DefaultErrorListener: antlr.NewDefaultErrorListener()}
	lexer := parser.NewJavaLexer(is)
	lexer.RemoveErrorListeners()
	lexer.AddErrorListener(ec)
	p := parser.NewJavaParser(antlr.NewCommonTokenStream(lexer, antlr.TokenDefaultChannel))
	p.RemoveErrorListeners()
	p.AddErrorListener(ec)
	p.CompilationUnit()
	return ec.n == 0, ec.first
}

func guarded(name string, f func() interface{}) (res map[string]interface{}) {
	defer func() {
		if r := recover(); r != nil {
			st := string(debug.Stack())
			if cp, ok := r.(cliPanic); ok {
				st = cp.stack // the command died in its own process: its stack names the site
			}
			res = map[string]interface{}{"pass": name, "panic": fmt.Sprint(r), "site": panicSite(st), "frames": cocaFrames(st)}
		}
	}()
	v := f()
	if _, err := json.Marshal(v); err != nil {
		return map[string]interface{}{"pass": name, "panic": "result cannot be serialised: " + err.Error(), "site": "json.Marshal"}
	}
	return map[string]interface{}{"pass": name, "ok": true}
}

// every pass over the tree, each under its own recover: which complete, which panic where
func passesFamily(c map[string]json.RawMessage) (interface{}, error) {
	dir, err := writeTree(c, "files")
	if dir != "" {
		defer os.RemoveAll(dir)
	}
	if err != nil {
		return nil, err
	}
	rejected := map[string]string{}
	for _, f := range cocafile.GetJavaFiles(dir) {
		if ok, why := accepts(f); !ok {
			rejected[strings.TrimPrefix(f, dir+string(os.PathSeparator))] = why
		}
	}
	if len(rejected) > 0 {
		return map[string]interface{}{"rejected": rejected}, nil
	}
	var idents []core_domain.CodeDataStruct
	out := []interface{}{}
	out = append(out, guarded("identifier", func() interface{} {
		ia := javaapp.NewJavaIdentifierApp()
		idents = ia.AnalysisPath(dir)
		return idents
	}))
	out = append(out, guarded("full", func() interface{} {
		fa := javaapp.NewJavaFullApp()
		return fa.AnalysisPath(dir, idents)
	}))
	out = append(out, guarded("bad-smell", func() interface{} {
		return bs.NewBadSmellApp().AnalysisPath(dir)
	}))
	out = append(out, guarded("api", func() interface{} {
		return new(api.JavaApiApp).AnalysisPath(dir, nil, map[string]core_domain.CodeDataStruct{}, map[string]string{})
	}))
	out = append(out, guarded("refactor", func() interface{} {
		return unusedapp.NewRemoveUnusedImportApp(dir).Analysis()
	}))
	out = append(out, guarded("todo", func() interface{} {
		return todo.NewTodoApp().AnalysisPath(dir, []string{".java"})
	}))
	if boolean(c, "cli") {
		// the commands of the same passes, each in a fresh process (exit status: a panic kills the command); the refactoring
		// command rewrites the tree and runs last
		work, err := newWork()
		if err != nil {
			return nil, err
		}
		defer os.RemoveAll(work)
		conf := filepath.Join(work, "move.config")
		_ = os.WriteFile(conf, []byte(""), 0644)
		for _, args := range [][]string{{"analysis", "-p", dir}, {"bs", "-p", dir, "-s", "type"}, {"api", "-f", "-p", dir}, {"todo", "-p", dir},
			{"refactor", "-m", conf, "-p", dir, "-d", ""}} {
			a := args
			out = append(out, guarded("coca "+a[0], func() interface{} {
				if _, err := cocaCli(work, a...); err != nil {
					panic(err.Error())
				}
				return true
			}))
		}
	}
	return map[string]interface{}{"passes": out}, nil
}
