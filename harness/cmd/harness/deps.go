package main

import (
	"encoding/json"
	"os"
	"path/filepath"

	"github.com/modernizing/coca/pkg/application/deps"
	"github.com/modernizing/coca/pkg/domain/core_domain"
)

func init() { register("deps", depsFamily) }

func depsOut(ds []core_domain.CodeDependency) []map[string]string {
	out := []map[string]string{}
	for _, d := range ds {
		out = append(out, map[string]string{"GroupId": d.GroupId, "ArtifactId": d.ArtifactId, "Scope": d.Scope})
	}
	return out
}

func depsFamily(c map[string]json.RawMessage) (interface{}, error) {
	switch str(c, "op") {
	case "maven":
		dir, err := os.MkdirTemp("", "cvd")
		if err != nil {
			return nil, err
		}
		defer os.RemoveAll(dir)
		p := filepath.Join(dir, "pom.xml")
		if err := os.WriteFile(p, []byte(str(c, "text")), 0644); err != nil {
			return nil, err
		}
		return map[string]interface{}{"deps": depsOut(deps.AnalysisMaven(p))}, nil
	case "gradle":
		return map[string]interface{}{"deps": depsOut(deps.AnalysisGradleString(str(c, "text")))}, nil
	case "gradlesoup":
		// any Gradle script: only termination without a crash is judged (how many entries were found is informational)
		n := len(deps.AnalysisGradleString(str(c, "text")))
		_ = n
		return map[string]interface{}{"soup": true}, nil
	case "unused":
		dir, err := writeTree(c, "files")
		if dir != "" {
			defer os.RemoveAll(dir)
		}
		if err != nil {
			return nil, err
		}
		var nodes []core_domain.CodeDataStruct
		if err := json.Unmarshal(c["clzs"], &nodes); err != nil {
			return nil, err
		}
		if boolean(c, "cli") {
			// the dependency sub-command itself in a fresh process: the imports as Java sources in the tree, `deps -p dir`,
			// the printed table read back
			for k, n := range nodes {
				// (with "testSources" the last class is a test: a dependency imported only from tests is imported)
				root, name := "main", n.NodeName
				if boolean(c, "testSources") && k == len(nodes)-1 {
					root, name = "test", n.NodeName+"Test"
				}
				src := "package " + n.Package + ";\n\n"
				for _, i := range n.Imports {
					src += "import " + i.Source + ";\n"
				}
				src += "\npublic class " + name + " {\n}\n"
				p := filepath.Join(dir, "src", root, "java", n.Package, name+".java")
				_ = os.MkdirAll(filepath.Dir(p), 0755)
				if err := os.WriteFile(p, []byte(src), 0644); err != nil {
					return nil, err
				}
			}
			work, err := newWork()
			if err != nil {
				return nil, err
			}
			defer os.RemoveAll(work)
			stdout, err := cocaCliMode("__cli_dep", work, "deps", "-p", dir)
			if err != nil {
				return nil, err
			}
			out := []map[string]string{}
			for i, row := range tableRows(stdout, 3) {
				if i == 0 {
					continue // header
				}
				out = append(out, map[string]string{"GroupId": row[0], "ArtifactId": row[1], "Scope": row[2]})
			}
			return map[string]interface{}{"deps": out}, nil
		}
		return map[string]interface{}{"deps": depsOut(deps.NewDepApp().AnalysisPath(dir, nodes))}, nil
	}
	return nil, nil
}
