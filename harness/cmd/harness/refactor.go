package main

import (
	"encoding/json"
	"os"
	"path/filepath"
	"sort"
	"strings"

	"github.com/antlr/antlr4/runtime/Go/antlr/v4"
	"github.com/modernizing/coca/pkg/adapter/cocafile"
	"github.com/modernizing/coca/pkg/application/analysis/javaapp"
	refbase "github.com/modernizing/coca/pkg/application/refactor/base"
	refmodels "github.com/modernizing/coca/pkg/application/refactor/base/models"
	renameapp "github.com/modernizing/coca/pkg/application/refactor/rename"
	unusedapp "github.com/modernizing/coca/pkg/application/refactor/unused"
	"github.com/modernizing/coca/pkg/domain/core_domain"
	"github.com/modernizing/coca/pkg/infrastructure/ast/ast_java"
)

func init() { register("refactor", refactorFamily) }

func readTree(dir string) map[string]string {
	out := map[string]string{}
	_ = filepath.Walk(dir, func(p string, info os.FileInfo, err error) error {
		if err == nil && !info.IsDir() {
			b, _ := os.ReadFile(p)
			rel, _ := filepath.Rel(dir, p)
			out[filepath.ToSlash(rel)] = string(b)
		}
		return nil
	})
	return out
}

func analyse(dir string) []core_domain.CodeDataStruct {
	identApp := javaapp.NewJavaIdentifierApp()
	identifiers := identApp.AnalysisPath(dir)
	fullApp := javaapp.NewJavaFullApp()
	return fullApp.AnalysisPath(dir, identifiers)
}

// the sites `coca refactor -R` will rewrite, as the rename app selects them from the model (glue: same two conditions)
func renameSites(deps []core_domain.CodeDataStruct, oldPkgClass, oldMethod, strip string) []interface{} {
	out := []interface{}{}
	for _, n := range deps {
		if n.Package+n.NodeName == oldPkgClass {
			for _, m := range n.Functions {
				if m.Name == oldMethod {
					out = append(out, map[string]interface{}{"file": strings.TrimPrefix(n.FilePath, strip), "kind": "decl", "line": m.Position.StartLine,
						"start": m.Position.StartLinePosition, "stop": m.Position.StopLinePosition})
				}
			}
		}
		for _, m := range n.Functions {
			for _, c := range m.FunctionCalls {
				if c.Package+c.NodeName == oldPkgClass && c.FunctionName == oldMethod {
					out = append(out, map[string]interface{}{"file": strings.TrimPrefix(n.FilePath, strip), "kind": "call", "line": c.Position.StartLine,
						"start": c.Position.StartLinePosition, "stop": c.Position.StopLinePosition})
				}
			}
		}
	}
	return out
}

func refactorFamily(c map[string]json.RawMessage) (interface{}, error) {
	dir, err := writeTree(c, "files")
	if dir != "" {
		defer os.RemoveAll(dir)
	}
	if err != nil {
		return nil, err
	}
	strip := dir + string(os.PathSeparator)
	switch str(c, "op") {
	case "rename":
		// `coca analysis` then `coca refactor -R conf -d deps.json`: deps go through their JSON form
		var parsed []core_domain.CodeDataStruct
		cli := boolean(c, "cli") && str(c, "only") != "sites"
		work := ""
		if cli {
			// the commands themselves, each in a fresh process: `coca analysis -p dir`, then `coca refactor -R conf -d deps.json`
			var err error
			if work, err = newWork(); err != nil {
				return nil, err
			}
			defer os.RemoveAll(work)
			if _, err := cocaCli(work, "analysis", "-p", dir); err != nil {
				return nil, err
			}
			b, err := getReport(work, "deps.json")
			if err != nil {
				return nil, err
			}
			_ = json.Unmarshal(b, &parsed)
		} else {
			deps := analyse(dir)
			b, _ := json.Marshal(deps)
			_ = json.Unmarshal(b, &parsed)
		}
		oldName, newName := str(c, "old"), str(c, "new")
		seg := strings.Split(oldName, ".")
		sites := renameSites(parsed, strings.Join(seg[:len(seg)-2], ".")+seg[len(seg)-2], seg[len(seg)-1], strip)
		if str(c, "only") == "sites" {
			return map[string]interface{}{"sites": sites}, nil
		}
		// a configuration with a second rule (one line per rule)
		conf := oldName + " -> " + newName
		var sites2 []interface{}
		if old2, new2 := str(c, "old2"), str(c, "new2"); old2 != "" {
			seg2 := strings.Split(old2, ".")
			sites2 = renameSites(parsed, strings.Join(seg2[:len(seg2)-2], ".")+seg2[len(seg2)-2], seg2[len(seg2)-1], strip)
			conf += "\n" + old2 + " -> " + new2
		}
		if cli {
			confFile := filepath.Join(work, "rename.txt")
			if err := os.WriteFile(confFile, []byte(conf), 0644); err != nil {
				return nil, err
			}
			if _, err := cocaCli(work, "refactor", "-R", confFile, "-d", filepath.Join(work, "coca_reporter", "deps.json")); err != nil {
				return nil, err
			}
		} else {
			app := renameapp.RenameMethodApp(parsed)
			app.Refactoring(conf)
		}
		files := readTree(dir)
		after := analyse(dir)
		res := map[string]interface{}{"sites": sites, "files": files, "before": nodesJ(parsed, strip), "after": nodesJ(after, strip)}
		if sites2 != nil {
			res["sites2"] = sites2
			res["unmodelled"] = true // the rewrite model takes one rule: a two-rule configuration is judged by the oracle
		}
		return res, nil
	case "unused":
		// front-end output per file (what BuildErrorLines reads), taken right after each file's walk
		front := []interface{}{}
		for _, file := range cocafile.GetJavaFiles(dir) {
			parser := ast_java.ProcessJavaFile(file)
			context := parser.CompilationUnit()
			node := refmodels.NewJFullIdentifier()
			listener := new(refbase.JavaRefactorListener)
			listener.InitNode(node)
			antlr.NewParseTreeWalker().Walk(listener, context)
			n := listener.GetNodeInfo()
			imps := []interface{}{}
			for _, i := range n.GetImports() {
				imps = append(imps, map[string]interface{}{"name": i.Name, "line": i.StartLine})
			}
			names := []string{}
			for k := range n.GetFields() {
				names = append(names, k)
			}
			sort.Strings(names)
			front = append(front, map[string]interface{}{"path": strings.TrimPrefix(file, strip), "name": n.Name, "imports": imps, "names": names})
		}
		if boolean(c, "cli") {
			// the command itself, twice, each in a fresh process: `coca refactor -m move.config -p dir` (an empty move list)
			work, err := newWork()
			if err != nil {
				return nil, err
			}
			defer os.RemoveAll(work)
			conf := filepath.Join(work, "move.config")
			_ = os.WriteFile(conf, []byte(""), 0644)
			if _, err := cocaCli(work, "refactor", "-m", conf, "-p", dir, "-d", ""); err != nil {
				return nil, err
			}
			files1 := readTree(dir)
			if _, err := cocaCli(work, "refactor", "-m", conf, "-p", dir, "-d", ""); err != nil {
				return nil, err
			}
			return map[string]interface{}{"front": front, "files1": files1, "files2": readTree(dir)}, nil
		}
		app := unusedapp.NewRemoveUnusedImportApp(dir)
		app.Refactoring(app.Analysis())
		files1 := readTree(dir)
		app2 := unusedapp.NewRemoveUnusedImportApp(dir)
		app2.Refactoring(app2.Analysis())
		files2 := readTree(dir)
		return map[string]interface{}{"front": front, "files1": files1, "files2": files2}, nil
	}
	return map[string]string{"error": "unknown op"}, nil
}
