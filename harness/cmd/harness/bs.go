package main

import (
	"encoding/json"
	"os"
	"path/filepath"
	"sort"
	"strings"

	"github.com/modernizing/coca/cmd"
	"github.com/modernizing/coca/pkg/application/bs"
	"github.com/modernizing/coca/pkg/domain/bs_domain"
)

func init() { register("bs", bsFamily) }

// writeTree materialises {relative path: content} under a fresh temp dir
func writeTree(c map[string]json.RawMessage, key string) (string, error) {
	var files map[string]string
	if err := json.Unmarshal(c[key], &files); err != nil {
		return "", err
	}
	dir, err := os.MkdirTemp("", "cvh")
	if err != nil {
		return "", err
	}
	for rel, content := range files {
		p := filepath.Join(dir, rel)
		if err := os.MkdirAll(filepath.Dir(p), 0755); err != nil {
			return dir, err
		}
		if err := os.WriteFile(p, []byte(content), 0644); err != nil {
			return dir, err
		}
	}
	return dir, nil
}

type finding struct {
	File        string
	Line        string
	Bs          string
	Description string
	Size        int
}

func conv(ms []bs_domain.BadSmellModel, strip string) []finding {
	out := []finding{}
	for _, m := range ms {
		if m.Bs == "refusedBequest" || m.Bs == "graphConnectedCall" {
			continue
		}
		d := m.Description
		if m.Bs == "longParameterList" {
			d = "<params json>"
		}
		f := m.File
		if strip != "" {
			f = strings.TrimPrefix(f, strip+string(os.PathSeparator))
		}
		out = append(out, finding{f, m.Line, m.Bs, d, m.Size})
	}
	return out
}

func bsFamily(c map[string]json.RawMessage) (interface{}, error) {
	var nodes []bs_domain.BSDataStruct
	strip := ""
	if str(c, "op") == "bsdir" {
		dir, err := writeTree(c, "files")
		if dir != "" {
			defer os.RemoveAll(dir)
		}
		if err != nil {
			return nil, err
		}
		strip = dir
		if boolean(c, "cli") {
			return bsCli(c, dir)
		}
		nodes = *bs.NewBadSmellApp().AnalysisPath(dir)
	} else {
		if err := json.Unmarshal(c["nodes"], &nodes); err != nil {
			return nil, err
		}
	}
	var ignore []string
	_ = json.Unmarshal(c["ignore"], &ignore)
	app := bs.NewBadSmellApp()
	list := app.IdentifyBadSmell(&nodes, ignore)
	if boolean(c, "sort") {
		sorted := bs_domain.SortSmellByType(list, cmd.VerifIsSmellHaveSize)
		out := map[string][]finding{}
		for k, v := range sorted {
			fs := conv(v, strip)
			if len(fs) > 0 {
				out[k] = fs
			}
		}
		return map[string]interface{}{"sorted": out}, nil
	}
	return map[string]interface{}{"list": conv(list, strip)}, nil
}

// bsCli: `coca bs -p dir [-x kinds] [-s type]`: coca_reporter/bs.json (a list, or a map kind -> list with -s type)
func bsCli(c map[string]json.RawMessage, dir string) (interface{}, error) {
	work, err := newWork()
	if err != nil {
		return nil, err
	}
	defer os.RemoveAll(work)
	var ignore []string
	_ = json.Unmarshal(c["ignore"], &ignore)
	args := []string{"bs", "-p", dir}
	if len(ignore) > 0 {
		args = append(args, "-x", strings.Join(ignore, ","))
	}
	if boolean(c, "sort") {
		args = append(args, "-s", "type")
	}
	if _, err := cocaCli(work, args...); err != nil {
		return nil, err
	}
	b, err := getReport(work, "bs.json")
	if err != nil {
		return nil, err
	}
	if boolean(c, "sort") {
		var sorted map[string][]bs_domain.BadSmellModel
		if err := json.Unmarshal(b, &sorted); err != nil {
			return map[string]interface{}{"reportUnreadable": err.Error()}, nil
		}
		out := map[string][]finding{}
		ext := []string{}
		for k, v := range sorted {
			if fs := conv(v, dir); len(fs) > 0 {
				out[k] = fs
			}
			ext = append(ext, extras(v, dir)...)
		}
		sort.Strings(ext)
		return map[string]interface{}{"sorted": out, "extra": ext}, nil
	}
	var list []bs_domain.BadSmellModel
	if err := json.Unmarshal(b, &list); err != nil {
		return map[string]interface{}{"reportUnreadable": err.Error()}, nil
	}
	return map[string]interface{}{"list": conv(list, dir), "extra": extras(list, dir)}, nil
}

// the kinds outside the modelled decision layer (refusedBequest, graphConnectedCall), as the command reports them in a fresh
// process: compared between runs (C08), not judged by the model
func extras(ms []bs_domain.BadSmellModel, strip string) []string {
	out := []string{}
	for _, m := range ms {
		if m.Bs == "refusedBequest" || m.Bs == "graphConnectedCall" {
			out = append(out, m.Bs+" | "+strings.TrimPrefix(m.File, strip+string(os.PathSeparator))+" | "+m.Line+" | "+m.Description)
		}
	}
	sort.Strings(out)
	return out
}
