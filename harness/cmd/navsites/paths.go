package main

// stage 2: navigation chains.  A small abstract walk over the listeners' Go code that follows context values through
// variables, GetChild(i) / GetParent() / child accessors / type assertions, collects the tests that dominate a use
// (nil tests, reflect.TypeOf(...).String() == "*parser.T", `x, ok := v.(*T)`, type switches, child-count tests,
// `v.Y() != nil`) and inlines calls of helper functions of the analysed files (so a helper is checked under the tests
// of its callers).  Every dereference, type assertion or GetChild on such a value is emitted as a list of steps
// (CocaVerif.NavTree.Step) from a context of known rule; Lean decides each with the abstract interpreter `runA` over the
// shipped grammar, whose soundness (`run_sound`) is proved for every well-formed parse tree.
//
// What is NOT a step and therefore trusted to this extractor: that the step list describes the Go code (variables are
// followed only through straight-line single assignments; anything assigned in a loop or in a branch is dropped).

import (
	"fmt"
	"go/ast"
	"go/token"
	"os"
	"sort"
	"strconv"
	"strings"
)

type pstep struct {
	kind string // parent | child | acc | assert | deref | guardNonNil | guardSym | guardHas | guardCount
	n    int
	s    string
}

func (p pstep) lean() string {
	switch p.kind {
	case "parent":
		return ".parent"
	case "child":
		return fmt.Sprintf(".child %d", p.n)
	case "acc":
		return ".acc " + leanStr(p.s)
	case "assert":
		return ".assertSym [" + leanStr(p.s) + "]"
	case "deref":
		return ".deref"
	case "guardNonNil":
		return ".guardNonNil"
	case "guardSym":
		return ".guardSym [" + leanStr(p.s) + "]"
	case "guardHas":
		return ".guardHas [" + leanStr(p.s) + "]"
	case "guardCount":
		return fmt.Sprintf(".guardCount %d", p.n)
	}
	return ".deref"
}

func (p pstep) isNav() bool { return p.kind == "parent" || p.kind == "child" || p.kind == "acc" }

type pathSite struct {
	where string
	fn    string
	rule  string
	steps []pstep
	text  string
}

// a context value: a base (a node of known rule, non-nil) and the steps from it
type nval struct {
	base  string
	rule  string
	steps []pstep // navigation and assertions, in order
}

func (v nval) with(s pstep) nval {
	return nval{base: v.base, rule: v.rule, steps: append(append([]pstep{}, v.steps...), s)}
}

func locKey(base string, steps []pstep) string {
	var b strings.Builder
	b.WriteString(base)
	for _, s := range steps {
		if s.isNav() {
			b.WriteString("/" + s.lean())
		}
	}
	return b.String()
}

type pguard struct {
	loc  string
	step pstep
}

type pending struct { // x, ok := E.(*T)
	okName string
	loc    string
	rule   string
}

type pwalk struct {
	file    string
	fn      string
	funcs   map[string]*ast.FuncDecl
	ffile   map[string]string
	vals    map[string]nval
	ints    map[string]int
	typeOf  map[string]nval   // variable holding reflect.TypeOf(E)
	alls    map[string]string // variable holding E.AllX(): the symbol x
	oks     map[string]pending
	guards  []pguard
	poison  map[string]bool
	depth   int
	nbase   *int
	paths   *[]pathSite
	other   map[string]int
	inlined map[string]bool // helper functions that were analysed at a call site
}

func (w *pwalk) note(kind string, n ast.Node) {
	w.other[kind]++
	if os.Getenv("NAVDEBUG") != "" {
		fmt.Fprintf(os.Stderr, "%s %s %s: %s\n", kind, fset.Position(n.Pos()), w.fn, strings.ReplaceAll(show(n), "\n", " "))
	}
}

func (w *pwalk) fresh(rule string) nval {
	*w.nbase++
	return nval{base: fmt.Sprintf("b%d", *w.nbase), rule: rule}
}

// the full step list of a value: its steps with the dominating tests of every location inserted where it is reached
func (w *pwalk) compose(v nval, final *pstep) []pstep {
	var out []pstep
	add := func(loc string) {
		for _, g := range w.guards {
			if g.loc == loc {
				out = append(out, g.step)
			}
		}
	}
	add(locKey(v.base, nil))
	for i, s := range v.steps {
		out = append(out, s)
		if s.isNav() {
			add(locKey(v.base, v.steps[:i+1]))
		}
	}
	if final != nil {
		out = append(out, *final)
	}
	return out
}

func (w *pwalk) emit(v nval, final pstep, node ast.Node) {
	st := w.compose(v, &final)
	pos := fset.Position(node.Pos())
	*w.paths = append(*w.paths, pathSite{where: fmt.Sprintf("%s:%d", w.file, pos.Line), fn: w.fn, rule: v.rule, steps: st,
		text: strings.ReplaceAll(show(node), "\n", " ")})
}

func intLit(e ast.Expr) (int, bool) {
	if bl, ok := e.(*ast.BasicLit); ok && bl.Kind == token.INT {
		n, err := strconv.Atoi(bl.Value)
		return n, err == nil
	}
	return 0, false
}

func (w *pwalk) intOf(e ast.Expr) (int, bool) {
	if n, ok := intLit(e); ok {
		return n, true
	}
	if id, ok := e.(*ast.Ident); ok {
		n, ok := w.ints[id.Name]
		return n, ok
	}
	return 0, false
}

// the value of an expression, when it is a context value that can be followed; sites inside are NOT recorded here
func (w *pwalk) navOf(e ast.Expr) (nval, bool) {
	switch v := e.(type) {
	case *ast.Ident:
		if w.poison[v.Name] {
			return nval{}, false
		}
		nv, ok := w.vals[v.Name]
		return nv, ok
	case *ast.ParenExpr:
		return w.navOf(v.X)
	case *ast.TypeAssertExpr:
		if v.Type == nil {
			return nval{}, false
		}
		inner, ok := w.navOf(v.X)
		t := ruleOfType(v.Type)
		if !ok {
			if t != "" {
				return w.fresh(t), true // the asserted value: a node of that rule (the assertion itself is not decided)
			}
			return nval{}, false
		}
		if t != "" {
			return inner.with(pstep{kind: "assert", s: t}), true
		}
		return inner, true // conversion to an interface type: the same node
	case *ast.CallExpr:
		sel, ok := v.Fun.(*ast.SelectorExpr)
		if !ok {
			return nval{}, false
		}
		inner, ok := w.navOf(sel.X)
		if !ok {
			return nval{}, false
		}
		name := sel.Sel.Name
		switch {
		case name == "GetParent" && len(v.Args) == 0:
			return inner.with(pstep{kind: "parent"}), true
		case name == "GetChild" && len(v.Args) == 1:
			n, ok := w.intOf(v.Args[0])
			if !ok {
				return nval{}, false
			}
			return inner.with(pstep{kind: "child", n: n}), true
		case (name == "GetRuleContext" || name == "GetPayload") && len(v.Args) == 0:
			return nval{}, false
		case !notAccessors[name] && !strings.HasPrefix(name, "All") && !strings.HasPrefix(name, "Get") && len(v.Args) <= 1:
			if len(v.Args) == 1 {
				if n, ok := intLit(v.Args[0]); !ok || n != 0 {
					return nval{}, false
				}
			}
			return inner.with(pstep{kind: "acc", s: symOfAccessor(name)}), true
		}
	}
	return nval{}, false
}

// `reflect.TypeOf(E)` (directly or through a variable)
func (w *pwalk) typeOfArg(e ast.Expr) (nval, bool) {
	switch x := e.(type) {
	case *ast.ParenExpr:
		return w.typeOfArg(x.X)
	case *ast.CallExpr:
		if show(x.Fun) == "reflect.TypeOf" && len(x.Args) == 1 {
			return w.navOf(x.Args[0])
		}
	case *ast.Ident:
		if w.poison[x.Name] {
			return nval{}, false
		}
		nv, ok := w.typeOf[x.Name]
		return nv, ok
	}
	return nval{}, false
}

// `E.GetChildCount()` / `len(E.GetChildren())`
func (w *pwalk) countArg(e ast.Expr) (nval, bool) {
	c, ok := e.(*ast.CallExpr)
	if !ok {
		return nval{}, false
	}
	if id, ok := c.Fun.(*ast.Ident); ok && id.Name == "len" && len(c.Args) == 1 {
		if c2, ok := c.Args[0].(*ast.CallExpr); ok {
			if s, ok := c2.Fun.(*ast.SelectorExpr); ok && s.Sel.Name == "GetChildren" {
				return w.navOf(s.X)
			}
		}
		return nval{}, false
	}
	if s, ok := c.Fun.(*ast.SelectorExpr); ok && s.Sel.Name == "GetChildCount" && len(c.Args) == 0 {
		return w.navOf(s.X)
	}
	return nval{}, false
}

func typeNameRule(lit ast.Expr) string {
	bl, ok := lit.(*ast.BasicLit)
	if !ok || bl.Kind != token.STRING {
		return ""
	}
	name, _ := strconv.Unquote(bl.Value)
	return ruleOfType(&ast.Ident{Name: strings.TrimPrefix(name, "*")})
}

// the tests an atomic condition states when it is true (pos) or false (!pos)
func (w *pwalk) atomFacts(c ast.Expr, pos bool) []pguard {
	var out []pguard
	at := func(v nval, s pstep) { out = append(out, pguard{loc: locKey(v.base, v.steps), step: s}) }
	switch b := c.(type) {
	case *ast.ParenExpr:
		return w.atomFacts(b.X, pos)
	case *ast.UnaryExpr:
		if b.Op == token.NOT {
			return w.atomFacts(b.X, !pos)
		}
	case *ast.Ident:
		if p, ok := w.oks[b.Name]; ok && pos && !w.poison[b.Name] {
			out = append(out, pguard{loc: p.loc, step: pstep{kind: "guardSym", s: p.rule}})
		}
	case *ast.BinaryExpr:
		isNil := func(e ast.Expr) bool { id, ok := e.(*ast.Ident); return ok && id.Name == "nil" }
		switch {
		case (b.Op == token.NEQ || b.Op == token.EQL) && isNil(b.Y):
			if (b.Op == token.NEQ) != pos {
				return nil
			}
			if v, ok := w.navOf(b.X); ok {
				at(v, pstep{kind: "guardNonNil"})
				// ctx.Y() != nil: ctx has a Y child
				if n := len(v.steps); n > 0 && v.steps[n-1].kind == "acc" {
					out = append(out, pguard{loc: locKey(v.base, v.steps[:n-1]), step: pstep{kind: "guardHas", s: v.steps[n-1].s}})
				}
			}
		case b.Op == token.EQL || b.Op == token.NEQ:
			// reflect.TypeOf(E).String() == "*parser.T"
			if (b.Op == token.EQL) != pos {
				return nil
			}
			call, ok := b.X.(*ast.CallExpr)
			if !ok {
				if p, ok := b.X.(*ast.ParenExpr); ok {
					call, _ = p.X.(*ast.CallExpr)
				}
			}
			if call != nil {
				if sel, ok := call.Fun.(*ast.SelectorExpr); ok && sel.Sel.Name == "String" {
					if r := typeNameRule(b.Y); r != "" {
						if v, ok := w.typeOfArg(sel.X); ok {
							at(v, pstep{kind: "guardSym", s: r})
						}
					}
					return out
				}
			}
			// E.GetChildCount() == k
			if b.Op == token.EQL && pos {
				if k, ok := w.intOf(b.Y); ok {
					if v, ok := w.countArg(b.X); ok {
						at(v, pstep{kind: "guardCount", n: k})
					}
				}
			}
		case b.Op == token.GTR || b.Op == token.GEQ || b.Op == token.LSS || b.Op == token.LEQ:
			k, ok := w.intOf(b.Y)
			if !ok {
				return nil
			}
			v, ok := w.countArg(b.X)
			if !ok {
				return nil
			}
			switch {
			case b.Op == token.GTR && pos:
				at(v, pstep{kind: "guardCount", n: k + 1})
			case b.Op == token.GEQ && pos:
				at(v, pstep{kind: "guardCount", n: k})
			case b.Op == token.LSS && !pos:
				at(v, pstep{kind: "guardCount", n: k})
			case b.Op == token.LEQ && !pos:
				at(v, pstep{kind: "guardCount", n: k + 1})
			}
		}
	}
	return out
}

// facts of a whole condition: when true, every && conjunct holds; when false, every || disjunct is false
func (w *pwalk) facts(c ast.Expr, pos bool) []pguard {
	switch b := c.(type) {
	case *ast.ParenExpr:
		return w.facts(b.X, pos)
	case *ast.UnaryExpr:
		if b.Op == token.NOT {
			return w.facts(b.X, !pos)
		}
	case *ast.BinaryExpr:
		if (b.Op == token.LAND && pos) || (b.Op == token.LOR && !pos) {
			return append(w.facts(b.X, pos), w.facts(b.Y, pos)...)
		}
		if b.Op == token.LAND || b.Op == token.LOR {
			return nil
		}
	}
	return w.atomFacts(c, pos)
}

// evaluate a condition left to right, recording the sites in it
func (w *pwalk) cond(c ast.Expr) {
	switch b := c.(type) {
	case *ast.ParenExpr:
		w.cond(b.X)
		return
	case *ast.BinaryExpr:
		if b.Op == token.LAND || b.Op == token.LOR {
			w.cond(b.X)
			saved := len(w.guards)
			w.guards = append(w.guards, w.facts(b.X, b.Op == token.LAND)...)
			w.cond(b.Y)
			w.guards = w.guards[:saved]
			return
		}
	}
	w.expr(c)
}

// record the sites of an expression
func (w *pwalk) expr(x ast.Expr) {
	if x == nil {
		return
	}
	ast.Inspect(x, func(n ast.Node) bool {
		switch v := n.(type) {
		case *ast.FuncLit:
			w.other["func-literal-not-followed"]++
			return false
		case *ast.BinaryExpr:
			if v.Op == token.LAND || v.Op == token.LOR {
				w.cond(v)
				return false
			}
		case *ast.TypeAssertExpr:
			if v.Type == nil {
				return true
			}
			if nv, ok := w.navOf(v.X); ok {
				if t := ruleOfType(v.Type); t != "" {
					w.emit(nv, pstep{kind: "assert", s: t}, v)
				} else {
					w.emit(nv, pstep{kind: "deref"}, v) // conversion to an interface: fails on nil only
				}
			} else if c, ok := v.X.(*ast.CallExpr); ok {
				if s, ok := c.Fun.(*ast.SelectorExpr); ok && (s.Sel.Name == "GetChild" || s.Sel.Name == "GetParent") {
					w.note("assert-on-"+s.Sel.Name+"-not-followed", v)
				}
			}
		case *ast.CallExpr:
			if s, ok := v.Fun.(*ast.SelectorExpr); ok {
				if nv, ok := w.navOf(s.X); ok {
					w.emit(nv, pstep{kind: "deref"}, v)
					if s.Sel.Name == "GetChild" && len(v.Args) == 1 {
						if k, ok := w.intOf(v.Args[0]); ok {
							w.emit(nv, pstep{kind: "child", n: k}, v) // the index must not equal the number of children
						} else {
							w.note("GetChild-variable-index", v)
						}
					}
				} else if s.Sel.Name == "String" {
					// reflect.TypeOf(E).String(): TypeOf(nil) is nil
					if tv, ok := w.typeOfArg(s.X); ok {
						w.emit(tv, pstep{kind: "deref"}, v)
					}
				} else if s.Sel.Name == "GetChild" || s.Sel.Name == "GetParent" {
					w.note(s.Sel.Name+"-on-value-not-followed", v)
				}
			}
			w.call(v)
		case *ast.SliceExpr:
			w.other["slice-expression"]++
		case *ast.IndexExpr:
			if c, ok := v.X.(*ast.CallExpr); ok {
				if s, ok := c.Fun.(*ast.SelectorExpr); ok && (strings.HasPrefix(s.Sel.Name, "All") || s.Sel.Name == "GetChildren") {
					w.other["index-into-"+s.Sel.Name]++
				}
			}
		}
		return true
	})
}

// a call of a helper function of the analysed files with a followed context argument: analyse the helper here
func (w *pwalk) call(c *ast.CallExpr) {
	name := ""
	switch f := c.Fun.(type) {
	case *ast.Ident:
		name = f.Name
	case *ast.SelectorExpr:
		if id, ok := f.X.(*ast.Ident); ok && (id.Name == "common_listener" || id.Name == "ast_java") {
			name = f.Sel.Name
		}
	}
	fd := w.funcs[name]
	if fd == nil || fd.Recv != nil || fd.Body == nil {
		return
	}
	var params []*ast.Ident
	var ptypes []ast.Expr
	for _, p := range fd.Type.Params.List {
		for _, n := range p.Names {
			params = append(params, n)
			ptypes = append(ptypes, p.Type)
		}
	}
	if len(params) != len(c.Args) {
		return
	}
	vals := map[string]nval{}
	ints := map[string]int{}
	any := false
	for i, a := range c.Args {
		if nv, ok := w.navOf(a); ok {
			if _, isEllipsis := ptypes[i].(*ast.Ellipsis); !isEllipsis {
				vals[params[i].Name] = nv
				any = true
			}
		} else if n, ok := w.intOf(a); ok {
			ints[params[i].Name] = n
		} else if r := ruleOfType(ptypes[i]); r != "" {
			if id, ok := a.(*ast.Ident); ok && id.Name == "nil" {
				continue
			}
			w.note("helper-argument-not-followed", a)
		}
	}
	if !any {
		return
	}
	w.inlined[name] = true
	if w.depth >= 4 {
		w.other["helper-inlining-depth"]++
		return
	}
	sub := &pwalk{file: w.ffile[name], fn: w.fn + ">" + name, funcs: w.funcs, ffile: w.ffile, vals: vals, ints: ints, typeOf: map[string]nval{}, alls: map[string]string{},
		oks: map[string]pending{}, guards: append([]pguard{}, w.guards...), poison: map[string]bool{}, depth: w.depth + 1, nbase: w.nbase,
		paths: w.paths, other: w.other, inlined: w.inlined}
	sub.block(fd.Body)
}

func assignedIn(n ast.Node) map[string]bool {
	out := map[string]bool{}
	ast.Inspect(n, func(x ast.Node) bool {
		switch s := x.(type) {
		case *ast.AssignStmt:
			if s.Tok != token.DEFINE {
				for _, l := range s.Lhs {
					if id, ok := l.(*ast.Ident); ok {
						out[id.Name] = true
					}
				}
			}
		case *ast.IncDecStmt:
			if id, ok := s.X.(*ast.Ident); ok {
				out[id.Name] = true
			}
		case *ast.FuncLit:
			return false
		}
		return true
	})
	return out
}

type snapshot struct {
	vals   map[string]nval
	ints   map[string]int
	typeOf map[string]nval
	oks    map[string]pending
	alls   map[string]string
	guards int
}

func (w *pwalk) snap() snapshot {
	s := snapshot{vals: map[string]nval{}, ints: map[string]int{}, typeOf: map[string]nval{}, oks: map[string]pending{}, alls: map[string]string{}, guards: len(w.guards)}
	for k, v := range w.vals {
		s.vals[k] = v
	}
	for k, v := range w.ints {
		s.ints[k] = v
	}
	for k, v := range w.typeOf {
		s.typeOf[k] = v
	}
	for k, v := range w.oks {
		s.oks[k] = v
	}
	for k, v := range w.alls {
		s.alls[k] = v
	}
	return s
}

// leave a nested scope: its definitions end, and whatever it assigned to an outer variable is no longer known
func (w *pwalk) restore(s snapshot, body ast.Node) {
	w.vals, w.ints, w.typeOf, w.oks, w.alls = s.vals, s.ints, s.typeOf, s.oks, s.alls
	w.guards = w.guards[:s.guards]
	for name := range assignedIn(body) {
		w.forget(name)
	}
}

// E.AllX(): the symbol of the elements
func allCall(e ast.Expr) string {
	if c, ok := e.(*ast.CallExpr); ok {
		if sel, ok := c.Fun.(*ast.SelectorExpr); ok && strings.HasPrefix(sel.Sel.Name, "All") && len(sel.Sel.Name) > 3 && len(c.Args) == 0 {
			return symOfAccessor(sel.Sel.Name[3:])
		}
	}
	return ""
}

func (w *pwalk) forget(name string) {
	delete(w.alls, name)
	delete(w.vals, name)
	delete(w.ints, name)
	delete(w.typeOf, name)
	delete(w.oks, name)
}

func (w *pwalk) scoped(body ast.Node, f func()) {
	s := w.snap()
	f()
	w.restore(s, body)
}

func (w *pwalk) loop(body ast.Node, f func()) {
	as := assignedIn(body)
	var added []string
	for name := range as {
		w.forget(name)
		if !w.poison[name] {
			w.poison[name] = true
			added = append(added, name)
		}
	}
	w.scoped(body, f)
	for _, n := range added {
		delete(w.poison, n)
	}
}

func (w *pwalk) block(b *ast.BlockStmt) {
	if b == nil {
		return
	}
	for _, st := range b.List {
		w.stmt(st)
	}
}

func (w *pwalk) bind(name string, rhs ast.Expr) {
	w.forget(name)
	if name == "_" || w.poison[name] {
		return
	}
	if c, ok := rhs.(*ast.CallExpr); ok && show(c.Fun) == "reflect.TypeOf" && len(c.Args) == 1 {
		if nv, ok := w.navOf(c.Args[0]); ok {
			w.typeOf[name] = nv
		}
		return
	}
	if nv, ok := w.navOf(rhs); ok {
		w.vals[name] = nv
		return
	}
	if sym := allCall(rhs); sym != "" {
		w.alls[name] = sym
		return
	}
	if n, ok := intLit(rhs); ok {
		w.ints[name] = n
	}
}

func (w *pwalk) stmt(st ast.Stmt) {
	switch s := st.(type) {
	case *ast.IfStmt:
		w.scoped(s, func() {
			if s.Init != nil {
				w.stmt(s.Init)
			}
			w.cond(s.Cond)
			w.scoped(s.Body, func() {
				w.guards = append(w.guards, w.facts(s.Cond, true)...)
				w.block(s.Body)
			})
			if s.Else != nil {
				w.scoped(s.Else, func() {
					w.guards = append(w.guards, w.facts(s.Cond, false)...)
					w.stmt(s.Else)
				})
			}
		})
		if s.Init == nil && leaves(s.Body) && s.Else == nil {
			w.guards = append(w.guards, w.facts(s.Cond, false)...)
		}
	case *ast.BlockStmt:
		w.scoped(s, func() { w.block(s) })
	case *ast.ForStmt:
		w.loop(s, func() {
			if s.Init != nil {
				w.stmt(s.Init)
			}
			if s.Cond != nil {
				w.cond(s.Cond)
			}
			w.block(s.Body)
			if s.Post != nil {
				w.stmt(s.Post)
			}
		})
	case *ast.RangeStmt:
		w.expr(s.X)
		w.loop(s, func() {
			for _, kv := range []ast.Expr{s.Key, s.Value} {
				if id, ok := kv.(*ast.Ident); ok {
					w.forget(id.Name)
				}
			}
			if id, ok := s.Value.(*ast.Ident); ok && id.Name != "_" {
				// the elements of AllX() are the X children: non-nil nodes of symbol x
				sym := allCall(s.X)
				if xid, ok := s.X.(*ast.Ident); ok && !w.poison[xid.Name] {
					sym = w.alls[xid.Name]
				}
				if sym != "" {
					w.vals[id.Name] = w.fresh(sym)
				}
			}
			w.block(s.Body)
		})
	case *ast.SwitchStmt:
		w.scoped(s, func() {
			if s.Init != nil {
				w.stmt(s.Init)
			}
			w.expr(s.Tag)
			for _, c := range s.Body.List {
				cc := c.(*ast.CaseClause)
				w.scoped(cc, func() {
					for _, x := range cc.List {
						w.expr(x)
					}
					if s.Tag == nil && len(cc.List) == 1 {
						w.guards = append(w.guards, w.facts(cc.List[0], true)...)
					}
					for _, b := range cc.Body {
						w.stmt(b)
					}
				})
			}
		})
	case *ast.TypeSwitchStmt:
		// `switch x := e.(type)`: inside `case *T:` e is a T and x is that node
		w.scoped(s, func() {
			if s.Init != nil {
				w.stmt(s.Init)
			}
			var name string
			var subj ast.Expr
			switch a := s.Assign.(type) {
			case *ast.AssignStmt:
				if id, ok := a.Lhs[0].(*ast.Ident); ok {
					name = id.Name
				}
				if ta, ok := a.Rhs[0].(*ast.TypeAssertExpr); ok {
					subj = ta.X
				}
			case *ast.ExprStmt:
				if ta, ok := a.X.(*ast.TypeAssertExpr); ok {
					subj = ta.X
				}
			}
			w.expr(subj)
			sv, followed := w.navOf(subj)
			for _, c := range s.Body.List {
				cc := c.(*ast.CaseClause)
				w.scoped(cc, func() {
					if name != "" {
						w.forget(name)
					}
					if len(cc.List) == 1 {
						if r := ruleOfType(cc.List[0]); r != "" {
							if followed {
								w.guards = append(w.guards, pguard{loc: locKey(sv.base, sv.steps), step: pstep{kind: "guardSym", s: r}})
								if name != "" {
									w.vals[name] = sv
								}
							} else if name != "" {
								w.vals[name] = w.fresh(r)
							}
						}
					}
					for _, b := range cc.Body {
						w.stmt(b)
					}
				})
			}
		})
	case *ast.AssignStmt:
		// x, ok := E.(*T): no panic; x is E's node where ok holds
		if len(s.Lhs) == 2 && len(s.Rhs) == 1 {
			if ta, ok := s.Rhs[0].(*ast.TypeAssertExpr); ok && ta.Type != nil {
				w.expr(ta.X)
				x, _ := s.Lhs[0].(*ast.Ident)
				okid, _ := s.Lhs[1].(*ast.Ident)
				if x != nil {
					w.forget(x.Name)
				}
				if okid != nil {
					w.forget(okid.Name)
				}
				t := ruleOfType(ta.Type)
				if nv, ok := w.navOf(ta.X); ok && t != "" && x != nil && okid != nil && !w.poison[x.Name] && !w.poison[okid.Name] {
					// uses of x assert the type again: provable only under the `ok` test
					w.vals[x.Name] = nv.with(pstep{kind: "assert", s: t})
					w.oks[okid.Name] = pending{okName: okid.Name, loc: locKey(nv.base, nv.steps), rule: t}
				} else if t != "" && x != nil {
					w.note("comma-ok-assertion-not-followed", ta)
				}
				return
			}
		}
		for _, r := range s.Rhs {
			w.expr(r)
		}
		for _, l := range s.Lhs {
			if _, ok := l.(*ast.Ident); !ok {
				w.expr(l)
			}
		}
		if len(s.Lhs) == len(s.Rhs) {
			for i, l := range s.Lhs {
				if id, ok := l.(*ast.Ident); ok {
					w.bind(id.Name, s.Rhs[i])
				}
			}
		} else {
			for _, l := range s.Lhs {
				if id, ok := l.(*ast.Ident); ok {
					w.forget(id.Name)
				}
			}
		}
	case *ast.DeclStmt:
		if gd, ok := s.Decl.(*ast.GenDecl); ok {
			for _, sp := range gd.Specs {
				if vs, ok := sp.(*ast.ValueSpec); ok {
					for _, v := range vs.Values {
						w.expr(v)
					}
					for i, n := range vs.Names {
						w.forget(n.Name)
						if len(vs.Values) == len(vs.Names) {
							w.bind(n.Name, vs.Values[i])
						}
					}
				}
			}
		}
	case *ast.ExprStmt:
		w.expr(s.X)
	case *ast.ReturnStmt:
		for _, r := range s.Results {
			w.expr(r)
		}
	case *ast.IncDecStmt:
		w.expr(s.X)
		if id, ok := s.X.(*ast.Ident); ok {
			w.forget(id.Name)
		}
	case *ast.GoStmt:
		w.expr(s.Call)
	case *ast.DeferStmt:
		w.expr(s.Call)
	case *ast.LabeledStmt:
		w.stmt(s.Stmt)
	}
}

// analyse all functions of the parsed files
func analysePaths(parsed map[string]*ast.File, order []string, other map[string]map[string]int) []pathSite {
	funcs := map[string]*ast.FuncDecl{}
	ffile := map[string]string{}
	dup := map[string]bool{}
	for _, rel := range order {
		for _, d := range parsed[rel].Decls {
			if fd, ok := d.(*ast.FuncDecl); ok && fd.Recv == nil {
				if _, seen := funcs[fd.Name.Name]; seen {
					dup[fd.Name.Name] = true
				}
				funcs[fd.Name.Name] = fd
				ffile[fd.Name.Name] = rel
			}
		}
	}
	for n := range dup { // the same helper name in two packages: not inlined
		delete(funcs, n)
	}
	var paths []pathSite
	nbase := 0
	inlined := map[string]bool{}
	type job struct {
		rel string
		fd  *ast.FuncDecl
	}
	var helpers []job
	run := func(rel string, fd *ast.FuncDecl, out *[]pathSite) {
		w := &pwalk{file: rel, fn: fd.Name.Name, funcs: funcs, ffile: ffile, vals: map[string]nval{}, ints: map[string]int{}, typeOf: map[string]nval{}, alls: map[string]string{},
			oks: map[string]pending{}, poison: map[string]bool{}, nbase: &nbase, paths: out, other: other[rel], inlined: inlined}
		for _, p := range fd.Type.Params.List {
			if r := ruleOfType(p.Type); r != "" {
				for _, n := range p.Names {
					w.vals[n.Name] = w.fresh(r)
				}
			}
		}
		w.block(fd.Body)
	}
	for _, rel := range order {
		for _, d := range parsed[rel].Decls {
			fd, ok := d.(*ast.FuncDecl)
			if !ok || fd.Body == nil {
				continue
			}
			if fd.Recv == nil {
				helpers = append(helpers, job{rel, fd})
				continue
			}
			run(rel, fd, &paths)
		}
	}
	// a helper that was never analysed under a caller is analysed on its own: its context parameters are nodes of their rule
	names := []string{}
	for _, h := range helpers {
		names = append(names, h.fd.Name.Name)
	}
	sort.Strings(names)
	for _, h := range helpers {
		if inlined[h.fd.Name.Name] && !dup[h.fd.Name.Name] {
			continue
		}
		run(h.rel, h.fd, &paths)
	}
	return paths
}
