// navsites: inventory of the places where the Java listeners dereference a parse-tree child, regenerated from
// /repo on every run (go/ast).  For each listener callback `func (s *L) Enter/ExitR(ctx *RContext)` and each helper
// that takes a `*RContext` parameter it records
//   - direct accessor dereferences  ctx.X().m(...)  /  ctx.X().(*T)  /  ctx.X(0)...   with the rule R, the accessor X
//     and whether a nil test of that accessor dominates the use (if ctx.X() != nil {…}, or an earlier
//     `if ctx.X() == nil { return|continue|break }`): these are the sites the Lean checker decides;
//   - every other dereference shape (GetChild(i), GetParent(), unchecked type assertion on a non-accessor, [a:b]
//     slices, [i] index on an accessor list) only as a count per file: those are covered by the dynamic search.
//
// Output: Lean module CocaVerif.Gen.NavSites.
package main

import (
	"fmt"
	"go/ast"
	"go/parser"
	"go/printer"
	"go/token"
	"os"
	"path/filepath"
	"sort"
	"strings"
)

var files = []string{
	"pkg/infrastructure/ast/ast_java/java_full_listener.go",
	"pkg/infrastructure/ast/ast_java/java_full_converter.go",
	"pkg/infrastructure/ast/ast_java/ast_java_target_handler.go",
	"pkg/infrastructure/ast/ast_java/java_identify/java_identifier_listener.go",
	"pkg/infrastructure/ast/ast_java/ast_api_java/java_api_listener.go",
	"pkg/infrastructure/ast/ast_java/common_listener/common_listener.go",
	"pkg/infrastructure/ast/bs_java/bad_smell_listener.go",
	"pkg/application/refactor/base/java_refactor_listener.go",
}

type site struct {
	where   string
	fn      string
	rule    string
	acc     string
	guarded bool
	given   []string
	text    string
}

var fset = token.NewFileSet()

func show(n ast.Node) string {
	var b strings.Builder
	_ = printer.Fprint(&b, fset, n)
	return b.String()
}

func leanStr(s string) string {
	return "\"" + strings.ReplaceAll(strings.ReplaceAll(s, "\\", "\\\\"), "\"", "\\\"") + "\""
}

// "*parser.ClassDeclarationContext" / "*ClassDeclarationContext" -> "classDeclaration"
func ruleOfType(t ast.Expr) string {
	s := show(t)
	s = strings.TrimPrefix(s, "*")
	if i := strings.LastIndex(s, "."); i >= 0 {
		s = s[i+1:]
	}
	if !strings.HasSuffix(s, "Context") || s == "Context" {
		return ""
	}
	s = strings.TrimSuffix(s, "Context")
	// the generated interface of a context: IFormalParametersContext
	if len(s) > 2 && s[0] == 'I' && s[1] >= 'A' && s[1] <= 'Z' && !(s[2] >= 'A' && s[2] <= 'Z') {
		s = s[1:]
	}
	return strings.ToLower(s[:1]) + s[1:]
}

// accessor method name -> grammar symbol: Identifier -> identifier, QualifiedName -> qualifiedName, EXTENDS -> EXTENDS
func symOfAccessor(name string) string {
	if name == strings.ToUpper(name) {
		return name
	}
	return strings.ToLower(name[:1]) + name[1:]
}

var notAccessors = map[string]bool{"GetText": true, "GetStart": true, "GetStop": true, "GetParent": true, "GetChild": true, "GetChildren": true,
	"GetChildCount": true, "GetPayload": true, "GetRuleContext": true, "GetParser": true, "GetBop": true, "GetPrefix": true, "GetPostfix": true,
	"GetLine": true, "GetColumn": true, "GetSymbol": true, "GetTokenType": true, "ToStringTree": true, "EnterRule": true, "ExitRule": true,
	"GetTokens": true, "GetToken": true, "GetSourceInterval": true, "Accept": true}

type env struct {
	rules map[string]string // variable name -> rule of the context it holds
}

// rule of the context an expression evaluates to, when it can be read off the code
func (e *env) ruleOf(x ast.Expr) string {
	switch v := x.(type) {
	case *ast.Ident:
		return e.rules[v.Name]
	case *ast.ParenExpr:
		return e.ruleOf(v.X)
	case *ast.TypeAssertExpr:
		if v.Type != nil {
			return ruleOfType(v.Type)
		}
	}
	return ""
}

// is x an accessor call recv.Acc(...) on a context of known rule? returns (rule, accessor, receiver text)
func (e *env) accessorCall(x ast.Expr) (string, string, bool) {
	c, ok := x.(*ast.CallExpr)
	if !ok {
		return "", "", false
	}
	sel, ok := c.Fun.(*ast.SelectorExpr)
	if !ok || notAccessors[sel.Sel.Name] || strings.HasPrefix(sel.Sel.Name, "All") {
		return "", "", false
	}
	r := e.ruleOf(sel.X)
	if r == "" {
		return "", "", false
	}
	if len(c.Args) > 1 {
		return "", "", false
	}
	if len(c.Args) == 1 {
		if bl, ok := c.Args[0].(*ast.BasicLit); !ok || bl.Value != "0" {
			return "", "", false // X(i), i > 0 or variable: not decided here
		}
	}
	return r, sel.Sel.Name, true
}

type walker struct {
	file    string
	fn      string
	e       *env
	sites   *[]site
	other   map[string]int
	guards  []string // accessor call texts known non-nil here
	nilText map[string]bool
	commaOk map[*ast.TypeAssertExpr]bool // `v, ok := x.(*T)`: yields (nil, false) on a nil x, never panics
}

func (w *walker) guarded(text string) bool {
	for _, g := range w.guards {
		if g == text {
			return true
		}
	}
	return false
}

// conjuncts of a condition that state `<expr> != nil`
func nonNilFacts(cond ast.Expr) []string {
	var out []string
	switch c := cond.(type) {
	case *ast.BinaryExpr:
		if c.Op == token.LAND {
			out = append(out, nonNilFacts(c.X)...)
			out = append(out, nonNilFacts(c.Y)...)
		} else if c.Op == token.NEQ && show(c.Y) == "nil" {
			out = append(out, show(c.X))
		}
	case *ast.ParenExpr:
		return nonNilFacts(c.X)
	}
	return out
}

// `<expr> == nil` disjuncts of a condition whose body leaves (return / continue / break): afterwards expr != nil
func nilTests(cond ast.Expr) []string {
	var out []string
	switch c := cond.(type) {
	case *ast.BinaryExpr:
		if c.Op == token.LOR {
			out = append(out, nilTests(c.X)...)
			out = append(out, nilTests(c.Y)...)
		} else if c.Op == token.EQL && show(c.Y) == "nil" {
			out = append(out, show(c.X))
		}
	case *ast.ParenExpr:
		return nilTests(c.X)
	}
	return out
}

func leaves(b *ast.BlockStmt) bool {
	if len(b.List) == 0 {
		return false
	}
	switch s := b.List[len(b.List)-1].(type) {
	case *ast.ReturnStmt:
		return true
	case *ast.BranchStmt:
		return s.Tok == token.CONTINUE || s.Tok == token.BREAK
	}
	return false
}

func (w *walker) expr(x ast.Expr) {
	if x == nil {
		return
	}
	ast.Inspect(x, func(n ast.Node) bool {
		switch v := n.(type) {
		case *ast.FuncLit:
			w.block(v.Body)
			return false
		case *ast.SelectorExpr:
			// recv.m where recv is an accessor call: a dereference of the accessor's result
			if r, acc, ok := w.e.accessorCall(v.X); ok {
				w.record(v.X, r, acc)
			}
		case *ast.TypeAssertExpr:
			if w.commaOk[v] {
				// the two-value form does not dereference its operand
			} else if r, acc, ok := w.e.accessorCall(v.X); ok && v.Type != nil {
				w.record(v.X, r, acc)
			} else if v.Type != nil {
				if c, ok := v.X.(*ast.CallExpr); ok {
					if s, ok := c.Fun.(*ast.SelectorExpr); ok && (s.Sel.Name == "GetChild" || s.Sel.Name == "GetParent") {
						w.other["assert-on-"+s.Sel.Name]++
					}
				}
			}
		case *ast.CallExpr:
			if s, ok := v.Fun.(*ast.SelectorExpr); ok {
				if c2, ok := s.X.(*ast.CallExpr); ok {
					if s2, ok := c2.Fun.(*ast.SelectorExpr); ok && (s2.Sel.Name == "GetChild" || s2.Sel.Name == "GetParent") {
						w.other["deref-of-"+s2.Sel.Name]++
					}
				}
			}
		case *ast.SliceExpr:
			w.other["slice-expression"]++
		case *ast.IndexExpr:
			if c, ok := v.X.(*ast.CallExpr); ok {
				if s, ok := c.Fun.(*ast.SelectorExpr); ok && strings.HasPrefix(s.Sel.Name, "All") {
					w.other["index-into-All"]++
				}
			}
			if _, ok := v.Index.(*ast.BasicLit); ok {
				w.other["constant-index"]++
			}
		}
		return true
	})
}

// the accessors of the same receiver that are known to be non-nil at this point (`if ctx.EXTENDS() != nil {` …)
func (w *walker) givens(recv string) []string {
	var out []string
	for _, g := range w.guards {
		if !strings.HasPrefix(g, recv+".") {
			continue
		}
		rest := g[len(recv)+1:]
		i := strings.Index(rest, "(")
		if i <= 0 || strings.Contains(rest[:i], ".") {
			continue
		}
		if args := rest[i:]; args != "()" && args != "(0)" {
			continue
		}
		if notAccessors[rest[:i]] {
			continue
		}
		out = append(out, symOfAccessor(rest[:i]))
	}
	sort.Strings(out)
	return out
}

func (w *walker) record(call ast.Expr, rule, acc string) {
	text := show(call)
	pos := fset.Position(call.Pos())
	recv := show(call.(*ast.CallExpr).Fun.(*ast.SelectorExpr).X)
	*w.sites = append(*w.sites, site{where: fmt.Sprintf("%s:%d", w.file, pos.Line), fn: w.fn, rule: rule, acc: symOfAccessor(acc),
		guarded: w.guarded(text), given: w.givens(recv), text: text})
}

func (w *walker) block(b *ast.BlockStmt) {
	if b == nil {
		return
	}
	saved := len(w.guards)
	for _, st := range b.List {
		w.stmt(st)
	}
	w.guards = w.guards[:saved]
}

func (w *walker) stmt(st ast.Stmt) {
	switch s := st.(type) {
	case *ast.IfStmt:
		if s.Init != nil {
			w.stmt(s.Init)
		}
		w.condExpr(s.Cond)
		saved := len(w.guards)
		w.guards = append(w.guards, nonNilFacts(s.Cond)...)
		w.block(s.Body)
		w.guards = w.guards[:saved]
		if s.Else != nil {
			w.stmt(s.Else)
		}
		if leaves(s.Body) {
			w.guards = append(w.guards, nilTests(s.Cond)...)
		}
	case *ast.BlockStmt:
		w.block(s)
	case *ast.ForStmt:
		if s.Init != nil {
			w.stmt(s.Init)
		}
		w.expr(s.Cond)
		w.block(s.Body)
	case *ast.RangeStmt:
		w.expr(s.X)
		w.block(s.Body)
	case *ast.SwitchStmt:
		if s.Init != nil {
			w.stmt(s.Init)
		}
		w.expr(s.Tag)
		for _, c := range s.Body.List {
			cc := c.(*ast.CaseClause)
			for _, x := range cc.List {
				w.expr(x)
			}
			saved := len(w.guards)
			for _, b := range cc.Body {
				w.stmt(b)
			}
			w.guards = w.guards[:saved]
		}
	case *ast.TypeSwitchStmt:
		// `switch x := e.(type)`: inside `case *T:` x holds a T
		var name string
		var subj ast.Expr
		switch a := s.Assign.(type) {
		case *ast.AssignStmt:
			if id, ok := a.Lhs[0].(*ast.Ident); ok {
				name = id.Name
			}
			if ta, ok := a.Rhs[0].(*ast.TypeAssertExpr); ok {
				subj = ta.X
			}
		case *ast.ExprStmt:
			if ta, ok := a.X.(*ast.TypeAssertExpr); ok {
				subj = ta.X
			}
		}
		w.expr(subj)
		for _, c := range s.Body.List {
			cc := c.(*ast.CaseClause)
			old, had := w.e.rules[name]
			if name != "" && len(cc.List) == 1 {
				if r := ruleOfType(cc.List[0]); r != "" {
					w.e.rules[name] = r
				}
			}
			saved := len(w.guards)
			for _, b := range cc.Body {
				w.stmt(b)
			}
			w.guards = w.guards[:saved]
			if had {
				w.e.rules[name] = old
			} else {
				delete(w.e.rules, name)
			}
		}
	case *ast.AssignStmt:
		if len(s.Lhs) == 2 && len(s.Rhs) == 1 {
			if ta, ok := s.Rhs[0].(*ast.TypeAssertExpr); ok && ta.Type != nil {
				if w.commaOk == nil {
					w.commaOk = map[*ast.TypeAssertExpr]bool{}
				}
				w.commaOk[ta] = true
			}
		}
		for _, r := range s.Rhs {
			w.expr(r)
		}
		for _, l := range s.Lhs {
			if _, ok := l.(*ast.Ident); !ok {
				w.expr(l)
			}
		}
		// x := <context of known rule>: remember it (single assignment idiom); x, ok := y.(*T) likewise
		if len(s.Lhs) >= 1 && len(s.Rhs) == 1 {
			if id, ok := s.Lhs[0].(*ast.Ident); ok {
				if r := w.e.ruleOf(s.Rhs[0]); r != "" {
					w.e.rules[id.Name] = r
				} else {
					delete(w.e.rules, id.Name)
				}
			}
		}
	case *ast.DeclStmt:
		if gd, ok := s.Decl.(*ast.GenDecl); ok {
			for _, sp := range gd.Specs {
				if vs, ok := sp.(*ast.ValueSpec); ok {
					for i, v := range vs.Values {
						w.expr(v)
						if i < len(vs.Names) {
							if r := w.e.ruleOf(v); r != "" {
								w.e.rules[vs.Names[i].Name] = r
							}
						}
					}
				}
			}
		}
	case *ast.ExprStmt:
		w.expr(s.X)
	case *ast.ReturnStmt:
		for _, r := range s.Results {
			w.expr(r)
		}
	case *ast.IncDecStmt:
		w.expr(s.X)
	case *ast.GoStmt:
		w.expr(s.Call)
	case *ast.DeferStmt:
		w.expr(s.Call)
	case *ast.LabeledStmt:
		w.stmt(s.Stmt)
	}
}

// a condition is evaluated left to right: in `a != nil && a.m()` the right operand is guarded by the left
func (w *walker) condExpr(c ast.Expr) {
	if b, ok := c.(*ast.BinaryExpr); ok && b.Op == token.LAND {
		w.condExpr(b.X)
		saved := len(w.guards)
		w.guards = append(w.guards, nonNilFacts(b.X)...)
		w.condExpr(b.Y)
		w.guards = w.guards[:saved]
		return
	}
	if b, ok := c.(*ast.BinaryExpr); ok && b.Op == token.LOR {
		w.condExpr(b.X)
		saved := len(w.guards)
		w.guards = append(w.guards, nilTests(b.X)...)
		w.condExpr(b.Y)
		w.guards = w.guards[:saved]
		return
	}
	w.expr(c)
}

func main() {
	repo, out := os.Args[1], os.Args[2]
	var sites []site
	other := map[string]map[string]int{}
	pother := map[string]map[string]int{}
	parsed := map[string]*ast.File{}
	var order []string
	var missing []string
	for _, rel := range files {
		f, err := parser.ParseFile(fset, filepath.Join(repo, rel), nil, 0)
		if err != nil {
			missing = append(missing, rel)
			continue
		}
		parsed[rel] = f
		order = append(order, rel)
		pother[rel] = map[string]int{}
		oc := map[string]int{}
		other[rel] = oc
		for _, d := range f.Decls {
			fd, ok := d.(*ast.FuncDecl)
			if !ok || fd.Body == nil {
				continue
			}
			e := &env{rules: map[string]string{}}
			for _, p := range fd.Type.Params.List {
				if r := ruleOfType(p.Type); r != "" {
					for _, n := range p.Names {
						e.rules[n.Name] = r
					}
				}
			}
			if len(e.rules) == 0 {
				// still count the shapes that are not analysed
			}
			w := &walker{file: rel, fn: fd.Name.Name, e: e, sites: &sites, other: oc}
			w.block(fd.Body)
		}
	}
	sort.SliceStable(sites, func(i, j int) bool { return sites[i].where < sites[j].where })
	paths := analysePaths(parsed, order, pother)
	var b strings.Builder
	b.WriteString("-- GENERATED by harness/cmd/navsites from /repo on every run. DO NOT EDIT.\nimport CocaVerif.Base.NavTree\nnamespace CocaVerif.Gen.NavSites\nopen CocaVerif.NavTree\n\n")
	b.WriteString("/-- a place where a listener dereferences the result of a child accessor: where, rule of the context, grammar symbol of the accessor, nil-guarded? -/\n")
	b.WriteString("structure Site where\n  pos : String\n  fn : String\n  rule : String\n  sym : String\n  guarded : Bool\n  given : List String\n  deriving Repr\n\n")
	b.WriteString("def sites : List Site := [\n")
	for i, s := range sites {
		sep := ","
		if i == len(sites)-1 {
			sep = ""
		}
		var gs []string
		for _, g := range s.given {
			gs = append(gs, leanStr(g))
		}
		fmt.Fprintf(&b, "  ⟨%s, %s, %s, %s, %v, [%s]⟩%s  -- %s\n", leanStr(s.where), leanStr(s.fn), leanStr(s.rule), leanStr(s.acc), s.guarded, strings.Join(gs, ", "), sep, strings.ReplaceAll(s.text, "\n", " "))
	}
	b.WriteString("]\n\n/-- dereference shapes that are not decided statically (covered by the grammar-wide search), per file -/\ndef unanalysed : List (String × String × Nat) := [\n")
	var rows []string
	for f, m := range other {
		for k, n := range m {
			rows = append(rows, fmt.Sprintf("  (%s, %s, %d)", leanStr(f), leanStr(k), n))
		}
	}
	sort.Strings(rows)
	b.WriteString(strings.Join(rows, ",\n"))
	b.WriteString("\n]\n\n/-- a dereference, type assertion or GetChild at the end of a navigation chain: the rule of the starting context and the steps (with the tests that dominate the use) -/\n")
	b.WriteString("structure PathSite where\n  pos : String\n  fn : String\n  rule : String\n  steps : List Step\n\n")
	sort.SliceStable(paths, func(i, j int) bool { return paths[i].where < paths[j].where })
	seen := map[string]bool{}
	b.WriteString("def pathSites : List PathSite := [\n")
	first := true
	npaths := 0
	for _, ps := range paths {
		var st []string
		for _, x := range ps.steps {
			st = append(st, x.lean())
		}
		key := ps.where + "|" + ps.rule + "|" + strings.Join(st, ",")
		if seen[key] {
			continue
		}
		seen[key] = true
		if !first {
			b.WriteString(",\n")
		}
		first = false
		npaths++
		fmt.Fprintf(&b, "  ⟨%s, %s, %s, [%s]⟩  /- %s -/", leanStr(ps.where), leanStr(ps.fn), leanStr(ps.rule), strings.Join(st, ", "), strings.ReplaceAll(ps.text, "-/", "- /"))
	}
	b.WriteString("\n]\n\n/-- shapes the chain walk does not follow (covered by the grammar-wide search), per file -/\ndef pathUnanalysed : List (String × String × Nat) := [\n")
	rows = nil
	for f, m := range pother {
		for k, n := range m {
			rows = append(rows, fmt.Sprintf("  (%s, %s, %d)", leanStr(f), leanStr(k), n))
		}
	}
	sort.Strings(rows)
	b.WriteString(strings.Join(rows, ",\n"))
	b.WriteString("\n]\n\ndef missingFiles : List String := [")
	for i, m := range missing {
		if i > 0 {
			b.WriteString(", ")
		}
		b.WriteString(leanStr(m))
	}
	b.WriteString("]\nend CocaVerif.Gen.NavSites\n")
	txt := b.String()
	target := filepath.Join(out, "NavSites.lean")
	if old, err := os.ReadFile(target); err != nil || string(old) != txt {
		_ = os.WriteFile(target, []byte(txt), 0644)
	}
	fmt.Printf("{\"sites\":%d,\"paths\":%d,\"missing\":%d}\n", len(sites), npaths, len(missing))
}
